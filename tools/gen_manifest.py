#!/usr/bin/env python3
"""Regenerates MANIFEST.json from the table below (kept in one place so it stays valid)."""
import json, subprocess, sys

CLAIMED = {
 # id: (level, technique, level text, level note, design_ref)
}
PENDING = {}

def load():
    import importlib.util, os
    here = os.path.dirname(os.path.abspath(__file__))
    spec = importlib.util.spec_from_file_location("manifest_table", os.path.join(here, "manifest_table.py"))
    m = importlib.util.module_from_spec(spec); spec.loader.exec_module(m)
    return m

def main():
    t = load()
    hooks = subprocess.run(["git","-C","/repo","log","--format=%h %s","--grep=^verif hook"],capture_output=True,text=True).stdout.strip().splitlines()
    checks = []
    for pid in sorted(t.CLAIMED):
        c = t.CLAIMED[pid]
        checks.append({
            "property_id": pid,
            "quick_cmd": f"./check {pid} --tier quick",
            "thorough_cmd": f"./check {pid} --tier thorough",
            "evidence_file": f"/verif/evidence/{pid}.json",
            "replay_cmd_template": f"./check {pid} --replay {{path}}",
            "engine": "hsv",
            "level_claimed": {"category": c["level"], "text": c["text"], "design_ref": c["ref"]},
            "level_note": c["note"],
            "technique": c["technique"],
        })
    props = [json.loads(l)["id"] for l in open("/verif/properties.jsonl")]
    na = [{"property_id": p, "reason": t.NOT_CLAIMED[p]} for p in props if p not in t.CLAIMED]
    for p in props:
        assert p in t.CLAIMED or p in t.NOT_CLAIMED, p
    m = {
        "version": 1,
        "setup_cmd": t.SETUP,
        "hooks": {
            "guard": "hotstuff_verif",
            "enable": "RUSTFLAGS / .cargo/config.toml of /verif/harness: --cfg hotstuff_verif --cfg tokio_unstable (cfg flag, no cargo feature); the harness depends on /repo's crates by path, so every check rebuilds them from the working tree",
            "baseline_off_cmd": "cd /repo && cargo test --workspace --no-fail-fast --offline",
            "source_commits": [h.split()[0] for h in hooks],
            "add_only": True,
        },
        "engines": [{
            "name": "hsv",
            "path": "/verif/harness",
            "serves_properties": sorted(t.CLAIMED),
            "kind_free_text": "Rust harness: proptest-generated choice tapes drive real components / real nodes on an in-memory transport under tokio virtual time; oracles over the recorded history; shrinking to a replay file",
        }],
        "checks": checks,
        "not_applicable": na,
        "notes": t.NOTES,
    }
    json.dump(m, open("/verif/MANIFEST.json","w"), indent=1)
    print("claimed", len(checks), "not claimed", len(na))

main()
