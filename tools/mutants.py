#!/usr/bin/env python3
"""Batch sensitivity run: applies each hand-written mutant to /repo, runs the listed checks (quick
tier), restores /repo, appends one line per (mutant, check) to the log given as argv[1].
usage: mutants.py <log> [name-substring]"""
import subprocess, sys, os, re
M = [
 # (name, file, old, new, checks)
 ("c02-emit-newest-first", "consensus/src/core.rs", "while let Some(block) = to_commit.pop_front() {", "while let Some(block) = to_commit.pop_back() {", ["C02","C07"]),
 ("c02-early-return-gt", "consensus/src/core.rs", "if self.last_committed_round >= block.round {", "if self.last_committed_round > block.round {", ["C02"]),
 ("c02-forget-last-committed", "consensus/src/core.rs", "        self.last_committed_round = block.round;\n", "", ["C02"]),
 ("c03-round-gate-removed", "consensus/src/core.rs", "        if block.round != self.round {\n            return Ok(());\n        }\n", "", ["C03","C10"]),
 ("c03-rule2-tc-branch-any", "consensus/src/core.rs", "can_extend &= block.qc.round >= *tc.high_qc_rounds().iter().max().expect(\"Empty TC\");", "can_extend &= !tc.high_qc_rounds().is_empty();", ["C03","C01"]),
 ("c04-qc-quorum-gt", "consensus/src/messages.rs", "            weight >= committee.quorum_threshold(),\n            ConsensusError::QCRequiresQuorum", "            weight > committee.quorum_threshold(),\n            ConsensusError::QCRequiresQuorum", ["C04","C19"]),
 ("c04-qc-no-distinctness", "consensus/src/messages.rs", "            ensure!(!used.contains(name), ConsensusError::AuthorityReuse(*name));\n            let voting_rights = committee.stake(name);\n            ensure!(voting_rights > 0, ConsensusError::UnknownAuthority(*name));\n            used.insert(*name);\n            weight += voting_rights;\n        }\n        ensure!(\n            weight >= committee.quorum_threshold(),\n            ConsensusError::QCRequiresQuorum", "            let voting_rights = committee.stake(name);\n            ensure!(voting_rights > 0, ConsensusError::UnknownAuthority(*name));\n            used.insert(*name);\n            weight += voting_rights;\n        }\n        ensure!(\n            weight >= committee.quorum_threshold(),\n            ConsensusError::QCRequiresQuorum", ["C04","C01"]),
 ("c04-tc-sig-wrong-round", "consensus/src/messages.rs", "            hasher.update(self.round.to_le_bytes());\n            hasher.update(high_qc_round.to_le_bytes());\n            let digest", "            hasher.update((self.round + 1).to_le_bytes());\n            hasher.update(high_qc_round.to_le_bytes());\n            let digest", ["C04","C19"]),
 ("c04-timeout-skips-embedded-qc", "consensus/src/messages.rs", "        if self.high_qc != QC::genesis() {\n            self.high_qc.verify(committee)?;\n        }\n        Ok(())", "        Ok(())", ["C04","C10"]),
 ("c05-commit-b1", "consensus/src/core.rs", "            self.commit(b0).await?;", "            self.commit(b1.clone()).await?;", ["C05","C02"]),
 ("c06-no-timer-reset-on-advance", "consensus/src/core.rs", "        // Reset the timer and advance round.\n        self.timer.reset();\n", "", ["C06","C10"]),
 ("c06-tc-not-broadcast", "consensus/src/core.rs", "            self.network\n                .broadcast(addresses, Bytes::from(message))\n                .await;\n\n            // Make a new block if we are the next leader.\n            if self.name == self.leader_elector.get_leader(self.round) {\n                self.generate_proposal(Some(tc)).await;", "            let _: (Vec<std::net::SocketAddr>, Vec<u8>) = (addresses, message);\n\n            // Make a new block if we are the next leader.\n            if self.name == self.leader_elector.get_leader(self.round) {\n                self.generate_proposal(Some(tc)).await;", ["C06"]),
 ("c06-no-proposal-after-tc", "consensus/src/core.rs", "            // Make a new block if we are the next leader.\n            if self.name == self.leader_elector.get_leader(self.round) {\n                self.generate_proposal(Some(tc)).await;\n            }\n        }\n        Ok(())\n    }\n\n    #[async_recursion]\n    async fn advance_round", "        }\n        Ok(())\n    }\n\n    #[async_recursion]\n    async fn advance_round", ["C06"]),
 ("c06-timer-not-rearmed-after-timeout", "consensus/src/core.rs", "        // Reset the timer.\n        self.timer.reset();\n\n        // Broadcast the timeout message.", "        // Broadcast the timeout message.", ["C06"]),
 ("c07-retry-disabled", "consensus/src/synchronizer.rs", "if timestamp + (sync_retry_delay as u128) < now {", "if timestamp + (sync_retry_delay as u128) < now && false {", ["C07"]),
 ("c07-helper-wrong-key", "consensus/src/helper.rs", "                .read(digest.to_vec())", "                .read({ let mut k = digest.to_vec(); k[0] ^= 1; k })", ["C07","C20","C15"]),
 ("c07-sync-no-loopback", "consensus/src/synchronizer.rs", "                            if let Err(e) = tx_loopback.send(block).await {\n                                panic!(\"Failed to send message through core channel: {}\", e);\n                            }", "                            let _ = &tx_loopback; let _ = block;", ["C07","C02"]),
 ("c08-verify-true-on-missing", "consensus/src/mempool.rs", "        if missing.is_empty() {\n            return Ok(true);\n        }", "        if missing.is_empty() || missing.len() == 1 {\n            return Ok(true);\n        }", ["C08"]),
 ("c08-waiter-first-of-several", "consensus/src/mempool.rs", "            result = try_join_all(waiting) => {\n                result.map(|_| Some(deliver)).map_err(ConsensusError::from)\n            }", "            result = futures::future::select_all(waiting.into_iter().map(Box::pin)) => {\n                result.0.map(|_| Some(deliver)).map_err(ConsensusError::from)\n            }", ["C08"]),
 ("c09-unsorted-keys", "consensus/src/leader.rs", "        keys.sort();\n", "", ["C09"]),
 ("c09-wrong-leader-check-removed", "consensus/src/core.rs", "        ensure!(\n            block.author == self.leader_elector.get_leader(block.round),", "        ensure!(\n            block.author == self.leader_elector.get_leader(block.round) || true,", ["C09","C04"]),
 ("c09-propose-also-in-process-qc", "consensus/src/core.rs", "    async fn process_qc(&mut self, qc: &QC) {\n        self.advance_round(qc.round).await;\n        self.update_high_qc(qc);\n    }", "    async fn process_qc(&mut self, qc: &QC) {\n        let before = self.round;\n        self.advance_round(qc.round).await;\n        self.update_high_qc(qc);\n        if self.round > before && self.name == self.leader_elector.get_leader(self.round) {\n            self.generate_proposal(None).await;\n        }\n    }", ["C09"]),
 ("c10-high-qc-keeps-lower", "consensus/src/core.rs", "        if qc.round > self.high_qc.round {", "        if qc.round < self.high_qc.round || self.high_qc.round == 0 {", ["C10"]),
 ("c10-round-regress", "consensus/src/core.rs", "        if round < self.round {\n            return;\n        }\n        // Reset the timer and advance round.", "        // Reset the timer and advance round.", ["C10"]),
 ("c10-tc-unverified", "consensus/src/core.rs", "    async fn handle_tc(&mut self, tc: TC) -> ConsensusResult<()> {\n        tc.verify(&self.committee)?;", "    async fn handle_tc(&mut self, tc: TC) -> ConsensusResult<()> {", ["C10","C04"]),
 ("c11-size-not-reset", "mempool/src/batch_maker.rs", "        // Serialize the batch.\n        self.current_batch_size = 0;", "        // Serialize the batch.", ["C11"]),
 ("c11-drop-empty-tx", "mempool/src/batch_maker.rs", "                    self.current_batch_size += transaction.len();\n                    self.current_batch.push(transaction);", "                    self.current_batch_size += transaction.len();\n                    if !transaction.is_empty() { self.current_batch.push(transaction); }", ["C11"]),
 ("c13-proposer-clears-buffer-on-cleanup", "consensus/src/proposer.rs", "                        for x in &digests {\n                            self.buffer.remove(x);\n                        }", "                        if !digests.is_empty() { self.buffer.clear(); }", ["C13"]),
 ("c13-mempool-helper-ignores", "mempool/src/helper.rs", "                    Ok(Some(data)) => self.network.send(address, Bytes::from(data)).await,", "                    Ok(Some(data)) => { let _ = (address, data); }", ["C13","C15"]),
 ("c13-payload-waiter-no-loopback", "consensus/src/mempool.rs", "                            self.tx_loopback.send(*block).await.expect(\"Failed to send consensus message\");", "                            let _ = block;", ["C13","C08"]),
 ("c15-expect-on-decode", "mempool/src/mempool.rs", "            Err(e) => warn!(\"Serialization error: {}\", e),", "            Err(e) => panic!(\"Serialization error: {}\", e),", ["C15"]),
 ("c15-consensus-handler-kills-listener", "network/src/receiver.rs", "                    Err(e) => {\n                        warn!(\"{}\", e);\n                        return;\n                    }\n                }\n            }\n            warn!(\"Connection closed by peer {}\", peer);", "                    Err(e) => {\n                        panic!(\"{}\", e);\n                    }\n                }\n            }\n            warn!(\"Connection closed by peer {}\", peer);", ["C15"]),
 ("c16-notify-before-put", "store/src/lib.rs", "                        let _ = db.put(&key, &value);\n", "", ["C16","C08"]),
 ("c17-ceil-2n-3", "consensus/src/config.rs", "        2 * total_votes / 3 + 1", "        (2 * total_votes + 2) / 3", ["C17"]),
 ("c17-n-minus-n-3", "mempool/src/config.rs", "        2 * total_votes / 3 + 1", "        total_votes - total_votes / 3", ["C17"]),
 ("c17-unknown-stake-1", "consensus/src/config.rs", "self.authorities.get(name).map_or_else(|| 0, |x| x.stake)", "self.authorities.get(name).map_or_else(|| 1, |x| x.stake)", ["C17","C04"]),
 ("c18-batch-skips-last", "crypto/src/lib.rs", "        dalek::verify_batch(&messages[..], &signatures[..], &keys[..])", "        let n = messages.len().saturating_sub(1).max(1).min(messages.len());\n        dalek::verify_batch(&messages[..n], &signatures[..n], &keys[..n])", ["C18","C04"]),
 ("c18-urlsafe-encode", "crypto/src/lib.rs", "    pub fn encode_base64(&self) -> String {\n        base64::encode(&self.0[..])\n    }\n\n    pub fn decode_base64(s: &str) -> Result<Self, base64::DecodeError> {\n        let bytes = base64::decode(s)?;\n        let array = bytes\n            .get(..32)", "    pub fn encode_base64(&self) -> String {\n        base64::encode_config(&self.0[..], base64::URL_SAFE)\n    }\n\n    pub fn decode_base64(s: &str) -> Result<Self, base64::DecodeError> {\n        let bytes = base64::decode(s)?;\n        let array = bytes\n            .get(..32)", ["C18"]),
 ("c19-weight-not-reset", "consensus/src/aggregator.rs", "            self.weight = 0; // Ensures QC is only made once.", "", ["C19"]),
 ("c19-duplicate-author-counted", "consensus/src/aggregator.rs", "        ensure!(\n            self.used.insert(author),\n            ConsensusError::AuthorityReuse(author)\n        );\n\n        self.votes.push((author, vote.signature));", "        self.used.insert(author);\n\n        self.votes.push((author, vote.signature));", ["C19"]),
 ("c19-votes-keyed-by-round-only", "consensus/src/aggregator.rs", "            .entry(vote.digest())", "            .entry(crypto::Digest::default())", ["C19"]),
 ("c19-tc-gt", "consensus/src/aggregator.rs", "        if self.weight >= committee.quorum_threshold() {\n            self.weight = 0; // Ensures TC is only created once.", "        if self.weight > committee.quorum_threshold() {\n            self.weight = 0; // Ensures TC is only created once.", ["C19"]),
 ("c20-block-digest-drops-round", "consensus/src/messages.rs", "        hasher.update(self.author.0);\n        hasher.update(self.round.to_le_bytes());\n        for x in &self.payload {", "        hasher.update(self.author.0);\n        for x in &self.payload {", ["C20"]),
 ("c20-tc-serde-skip", "consensus/src/messages.rs", "    pub qc: QC,\n    pub tc: Option<TC>,", "    pub qc: QC,\n    #[serde(skip)]\n    pub tc: Option<TC>,", ["C20"]),
 ("c20-timeout-digest-vote-layout", "consensus/src/messages.rs", "        hasher.update(self.round.to_le_bytes());\n        hasher.update(self.high_qc.round.to_le_bytes());\n        Digest(hasher", "        hasher.update(&self.high_qc.hash);\n        hasher.update(self.round.to_le_bytes());\n        Digest(hasher", ["C20","C19"]),
]
log = sys.argv[1]; filt = sys.argv[2] if len(sys.argv) > 2 else ""
REPO = os.environ.get("MUT_REPO", "/repo"); CHECK = os.environ.get("MUT_CHECK", "/verif/check")
os.chdir(REPO)
for name, f, old, new, checks in M:
    if filt and filt not in name: continue
    s = open(f).read()
    if s.count(old) != 1:
        open(log,"a").write(f"{name} MUTATION-ERROR pattern occurs {s.count(old)} times\n"); continue
    open(f,"w").write(s.replace(old,new))
    try:
        for c in checks:
            r = subprocess.run([CHECK, c, "--tier", "quick"] + os.environ.get("MUT_EXTRA", "").split(), capture_output=True, text=True)
            out = r.stdout + r.stderr
            verdict = "CAUGHT" if "VIOLATION" in out else ("INCONCLUSIVE" if ("INCONCLUSIVE" in out or "HARNESS" in out or r.returncode not in (0,1)) else "missed")
            m = re.findall(r"evaluations=(\d+)", out); d = re.findall(r"violation detail: \[([^\]]*)\]", out)
            open(log,"a").write(f"{name} :: {c} :: {verdict} evals={m[-1] if m else '?'} {d[0] if d else ''}\n")
    finally:
        subprocess.run(["git","checkout","--","."], cwd=REPO)
