#!/bin/bash
# usage: multiseed.sh "<seeds>" <ids...> : runs the quick tier of the given checks for several seeds on the current tree
seeds="$1"; shift
for s in $seeds; do for id in "$@"; do
  out=$(VERIF_SEED=$s /verif/check $id --tier quick 2>&1 | grep -E "VIOLATION|INCONCLUSIVE|HARNESS|KNOWN" | head -3 | tr '\n' ' ')
  echo "seed=$s $id ${out:-silent}"
done; done
