#!/usr/bin/env python3
import json,sys
d=json.load(open(sys.argv[1]))
h=d['history']
lo=int(sys.argv[2]); hi=int(sys.argv[3])
print(h['injected'], d['detail'])
for name in ['baseline','history']:
    print('---',name)
    for e in h[name]:
        if isinstance(e,dict) and lo<=e.get('t_us',0)<=hi: print(json.dumps(e)[:230])
