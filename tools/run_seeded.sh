#!/bin/bash
# usage: run_seeded.sh <seed-dir-name> <check-id>...   applies seeded/<name>/patch.diff to /repo, runs checks (quick), restores /repo
name="$1"; shift
REPO="${SEED_REPO:-/repo}"; CHECK="${SEED_CHECK:-/verif/check}"
cd "$REPO" || exit 2
if ! git apply --check /verif/seeded/$name/patch.diff 2>/dev/null; then echo "patch does not apply"; exit 3; fi
git apply /verif/seeded/$name/patch.diff
for id in "$@"; do
  out=$($CHECK $id --tier ${TIER:-quick} 2>&1 | grep -E "VIOLATION|INCONCLUSIVE|HARNESS|tier=|violation detail" | head -4 | tr '\n' ' ')
  echo "SEEDED $name :: $id :: $out"
done
git checkout -- . && git status --short | head -3
