#!/usr/bin/env python3
"""Prompt generator used for the seeded-change campaign (DESIGN.md section 8, seeded/README.md).

usage: seed_prompt.py <property-id> "<hint or empty>" <scratch-worktree> > /tmp/seedtools/p_<id>.txt

The sub-agent that receives the prompt gets ONLY this text (property statement + instructions) and its
own scratch git worktree of /repo under /tmp (`git -C /repo worktree add --detach <dir> HEAD`, with a
warm `target/` copied in by `cp -a`); nothing from /verif is shown to it. The optional hint is one sentence
of mine naming a code region to look at or to avoid, so that later rounds do not repeat earlier ideas.
`/tmp/seedtools/run_tests.sh` (build outside a lock, then `flock /tmp/seedtools/test.lock cargo test
--workspace --no-fail-fast --offline`) serialised the repository's tests across worktrees, because they
bind fixed localhost ports.
"""
import json
import sys

pid = sys.argv[1]
hint = sys.argv[2] if len(sys.argv) > 2 else ""
wt = sys.argv[3] if len(sys.argv) > 3 else f"/tmp/seed-{pid}"
props = {}
for line in open('/verif/properties.jsonl'):
    p = json.loads(line)
    props[p['id']] = p
p = props[pid]
print(f'''You are helping to evaluate a verification effort by acting as a "bug seeder". You work ONLY inside the git worktree {wt} (a scratch checkout of the Rust project asonnino/hotstuff: a compact 2-chain HotStuff BFT consensus implementation with crates store, crypto, network, mempool, consensus, node). Do not read, list or modify anything under /verif or /repo, and do not create files outside {wt}. There is no network access; build with `cargo ... --offline`.

The semantic property you must break:

{pid} - {p['title']}. {p['statement']} This must hold {p['quantifier']['text']}.

Your task: produce ONE realistic source change (the kind of change a plausible refactoring, optimisation or well-meant "fix" could introduce; a few lines, possibly two cooperating sites that each look fine alone) to the non-test source of the project that BREAKS this property, while
 (a) the project still compiles,
 (b) the project's existing test suite still passes unedited: run it with `/tmp/seedtools/run_tests.sh` from {wt} (it builds, then runs `cargo test --workspace --no-fail-fast --offline` under a lock because the tests bind fixed localhost ports; all 41 tests must pass; if you see a port-in-use failure, just re-run), and
 (c) the breakage needs something SPECIFIC to manifest - a particular interleaving, a multi-step sequence of operations or messages, an unusual but legal input, a crash/fault at a particular point, a particular configuration - NOT something ordinary use (a fault-free run of a few rounds with the default setup) would expose at once. Avoid the most obvious one-token mutation of the central check; prefer something subtler that a reviewer could plausibly miss. {hint} Code under `#[cfg(hotstuff_verif)]` is test instrumentation: do not touch it and do not rely on it.

Also produce a DEMONSTRATION: a new test (for example an extra `#[tokio::test]` in a NEW file that you wire in with a `#[cfg(test)] #[path = ...] mod ...;` line - do not edit existing tests) or a small program that drives the real code (the existing tests and their `common.rs` helpers show how to instantiate each component) through the specific scenario and FAILS with your change and PASSES without it. Verify both directions yourself: run the demo with your change applied (must fail) and with the change reverted (`git apply -R` of just the source change) (must pass).

Deliverables, all inside {wt}/_seed/ :
 - patch.diff : `git diff` of ONLY the breaking source change (not the demonstration),
 - demo.diff : the demonstration only (a diff adding it, or the demo source files plus a note where they go),
 - README.md : which clause of the property is broken and why, what exactly is needed for the breakage to manifest, the exact commands you ran (test suite with the change: pass; demo with the change: fail; demo without the change: pass) and their observed results.
Leave the worktree with the breaking change applied and the demo present. Finish with a short report (what the change is, what it needs to manifest, confirmation of the three runs). Be careful and honest: if you cannot make the existing suite pass, say so.''')
