#!/bin/bash
# Optional coverage-guided campaign (not part of any registered check): tools/fuzz.sh <target> [runs]
# targets: wire_consensus wire_mempool keys. Builds the cargo-fuzz crate on first use (6-50 min cold).
set -e
cd /verif/harness
t="${1:-wire_consensus}"; runs="${2:-1000000}"
cargo build --release --offline >/dev/null 2>&1 && ./target/release/hsv gen-corpus fuzz/corpus
export CARGO_NET_OFFLINE=true RUSTFLAGS="--cfg hotstuff_verif -Aunexpected_cfgs"
exec cargo +nightly fuzz run "$t" -- -runs="$runs" -seed="${VERIF_SEED:-1}" -len_control=0 -max_len=4096
