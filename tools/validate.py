#!/usr/bin/env python3
"""Validate MANIFEST.json and every evidence file against the given schemas (run with python3-vt)."""
import json, glob, sys
import jsonschema
ok = True
try:
    jsonschema.validate(json.load(open('/verif/MANIFEST.json')), json.load(open('/root/.vp/MANIFEST.schema.json')))
    print('MANIFEST ok')
except Exception as e:
    ok = False; print('MANIFEST INVALID', e)
es = json.load(open('/root/.vp/EVIDENCE.schema.json'))
for f in sorted(glob.glob('/verif/evidence/*.json')):
    try:
        jsonschema.validate(json.load(open(f)), es); print('ok', f)
    except Exception as e:
        ok = False; print('INVALID', f, str(e)[:300])
sys.exit(0 if ok else 1)
