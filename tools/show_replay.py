#!/usr/bin/env python3
"""Pretty-print the script and the consensus-relevant history stored in a replay file."""
import json, sys
d = json.load(open(sys.argv[1]))
print("property", d["property"], "part", d["part"], "signature", d["signature"])
print("detail:", d["detail"])
h = d["history"]
if isinstance(h, dict):
    print("n", h.get("n"), "stakes", h.get("stakes"), "sut", h.get("sut"))
    for s in h.get("script", []):
        print("  step", json.dumps(s))
    filt = sys.argv[2:] 
    for e in h.get("history", []):
        s = json.dumps(e)
        if not filt or any(f in s for f in filt):
            print(s[:260])
else:
    print(json.dumps(h)[:3000])
