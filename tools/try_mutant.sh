#!/bin/bash
# usage: try_mutant.sh <name> <file> <python-regex-old> <new> <check-id>...
# Applies a one-off source mutation to /repo, runs the given checks (quick tier), restores /repo.
name="$1"; file="$2"; old="$3"; new="$4"; shift 4
cd /repo || exit 2
python3 - "$file" "$old" "$new" <<'PY'
import sys,re
f,old,new=sys.argv[1:4]
s=open(f).read()
n=s.count(old)
if n!=1:
    print("MUTATION-ERROR: pattern occurs",n,"times"); sys.exit(3)
open(f,'w').write(s.replace(old,new))
PY
rc=$?
if [ $rc -ne 0 ]; then git checkout -- .; exit $rc; fi
for id in "$@"; do
  out=$(/verif/check $id --tier quick 2>&1 | grep -E "VIOLATION|INCONCLUSIVE|HARNESS|tier=" | head -3 | tr '\n' ' ')
  echo "MUTANT $name :: $id :: $out"
done
git checkout -- .
