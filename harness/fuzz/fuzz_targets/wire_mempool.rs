//! bytes -> MempoolMessage; oracle: no panic, re-encoding decodes to the same value (C15).
#![no_main]
use libfuzzer_sys::fuzz_target;
use mempool::MempoolMessage;

fuzz_target!(|data: &[u8]| {
    if let Ok(m) = bincode::deserialize::<MempoolMessage>(data) {
        let _ = format!("{:?}", m);
        let again = bincode::serialize(&m).expect("re-serialize");
        let back = bincode::deserialize::<MempoolMessage>(&again).expect("re-decode");
        assert_eq!(format!("{:?}", back), format!("{:?}", m));
    }
});
