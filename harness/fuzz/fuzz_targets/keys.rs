//! text -> PublicKey / SecretKey decoders (base64, serde through JSON and bincode); oracle: total
//! (value or error, never a panic) and decode(encode(k)) = k (C15 / C18).
#![no_main]
use crypto::{PublicKey, SecretKey};
use libfuzzer_sys::fuzz_target;

fuzz_target!(|data: &[u8]| {
    let text = String::from_utf8_lossy(data).to_string();
    if let Ok(k) = PublicKey::decode_base64(&text) {
        let again = PublicKey::decode_base64(&k.encode_base64()).expect("re-decode public key");
        assert!(again == k);
    }
    if let Ok(k) = SecretKey::decode_base64(&text) {
        let enc = k.encode_base64();
        let again = SecretKey::decode_base64(&enc).expect("re-decode secret key");
        assert_eq!(again.encode_base64(), enc);
    }
    let _ = serde_json::from_slice::<PublicKey>(data);
    let _ = serde_json::from_slice::<SecretKey>(data);
    let _ = bincode::deserialize::<PublicKey>(data);
    let _ = bincode::deserialize::<SecretKey>(data);
});
