//! bytes -> ConsensusMessage -> verify against a fixed committee; oracle: no panic, and the
//! repository's verify agrees with the independent reference predicate (C04a / C15).
#![no_main]
#[path = "../../src/refvalid.rs"]
mod refvalid;
#[path = "../../src/world.rs"]
mod world;

use consensus::ConsensusMessage;
use libfuzzer_sys::fuzz_target;
use std::sync::OnceLock;

fn world() -> &'static world::World {
    static W: OnceLock<world::World> = OnceLock::new();
    W.get_or_init(|| world::World::new(&[1, 2, 1, 1], 0))
}

fuzz_target!(|data: &[u8]| {
    let w = world();
    if let Ok(m) = bincode::deserialize::<ConsensusMessage>(data) {
        let zero = |keys: Vec<crypto::PublicKey>| refvalid::has_zero_stake_signer(w, keys.into_iter());
        match &m {
            ConsensusMessage::Propose(b) => {
                let _ = format!("{:?} {}", b, b);
                let mut keys: Vec<_> = b.qc.votes.iter().map(|(k, _)| *k).collect();
                if let Some(tc) = &b.tc {
                    keys.extend(tc.votes.iter().map(|(k, _, _)| *k));
                }
                if !zero(keys) {
                    assert_eq!(b.verify(&w.ccom).is_ok(), refvalid::ref_block(w, b).is_ok(), "block verify differs from reference");
                }
            }
            ConsensusMessage::Vote(v) => {
                assert_eq!(v.verify(&w.ccom).is_ok(), refvalid::ref_vote(w, v).is_ok(), "vote verify differs from reference");
            }
            ConsensusMessage::Timeout(t) => {
                if !zero(t.high_qc.votes.iter().map(|(k, _)| *k).collect()) {
                    assert_eq!(t.verify(&w.ccom).is_ok(), refvalid::ref_timeout(w, t).is_ok(), "timeout verify differs from reference");
                }
            }
            ConsensusMessage::TC(t) => {
                if !zero(t.votes.iter().map(|(k, _, _)| *k).collect()) {
                    assert_eq!(t.verify(&w.ccom).is_ok(), refvalid::ref_tc(w, t).is_ok(), "TC verify differs from reference");
                }
            }
            ConsensusMessage::SyncRequest(d, k) => {
                let _ = format!("{:?} {} {:?} {}", d, d, k, k);
            }
        }
        // wire round trip keeps the bytes' meaning
        let again = bincode::serialize(&m).expect("re-serialize");
        let _ = bincode::deserialize::<ConsensusMessage>(&again).expect("re-decode");
    }
});
