//! Independent validity predicate, written from the text of property C04 and not by calling the
//! repository's `verify` functions: digests are recomputed from the fields, every signature is checked
//! one by one with ed25519-dalek's strict verification, certificate members must be distinct committee
//! members with positive stake whose stake sum reaches floor(2N/3)+1 (computed in u64/u128).
use crate::world::World;
use consensus::{Block, Round, Timeout, Vote, QC, TC};
use crypto::{Digest, PublicKey, Signature};
use ed25519_dalek::{Digest as _, Sha512};
use std::collections::HashSet;
use std::convert::TryInto;

#[derive(Debug, Clone, Copy, PartialEq, Eq)]
pub enum Reject {
    UnknownAuthor,
    BadSignature,
    Reuse,
    UnknownSigner,
    NoQuorum,
    BadCertSignature,
}

fn h(parts: &[&[u8]]) -> Digest {
    let mut hasher = Sha512::new();
    for p in parts {
        hasher.update(p);
    }
    Digest(hasher.finalize().as_slice()[..32].try_into().unwrap())
}

pub fn block_digest(b: &Block) -> Digest {
    let mut parts: Vec<&[u8]> = Vec::new();
    let round = b.round.to_le_bytes();
    parts.push(&b.author.0);
    parts.push(&round);
    for x in &b.payload {
        parts.push(&x.0);
    }
    parts.push(&b.qc.hash.0);
    h(&parts)
}

pub fn vote_digest(hash: &Digest, round: Round) -> Digest {
    h(&[&hash.0, &round.to_le_bytes()])
}

pub fn timeout_digest(round: Round, high_qc_round: Round) -> Digest {
    h(&[&round.to_le_bytes(), &high_qc_round.to_le_bytes()])
}

pub fn sig_bytes(sig: &Signature) -> [u8; 64] {
    let v = bincode::serialize(sig).expect("signature serializes");
    let mut out = [0u8; 64];
    out.copy_from_slice(&v[..64]);
    out
}

pub fn sig_from_bytes(bytes: &[u8; 64]) -> Signature {
    bincode::deserialize(&bytes[..]).expect("signature deserializes")
}

/// Strict single-signature verification straight on ed25519-dalek.
pub fn sig_ok(sig: &Signature, digest: &Digest, key: &PublicKey) -> bool {
    let bytes = sig_bytes(sig);
    let signature = match ed25519_dalek::Signature::from_bytes(&bytes) {
        Ok(s) => s,
        Err(_) => return false,
    };
    let key = match ed25519_dalek::PublicKey::from_bytes(&key.0) {
        Ok(k) => k,
        Err(_) => return false,
    };
    key.verify_strict(&digest.0, &signature).is_ok()
}

pub fn stake(w: &World, key: &PublicKey) -> u64 {
    w.index_of(key).map(|i| w.stakes[i] as u64).unwrap_or(0)
}

pub fn is_genesis_qc(qc: &QC) -> bool {
    qc.hash == Digest::default() && qc.round == 0
}

pub fn ref_qc(w: &World, qc: &QC) -> Result<(), Reject> {
    let mut used = HashSet::new();
    let mut weight: u128 = 0;
    for (name, _) in &qc.votes {
        if !used.insert(*name) {
            return Err(Reject::Reuse);
        }
        let s = stake(w, name);
        if s == 0 {
            return Err(Reject::UnknownSigner);
        }
        weight += s as u128;
    }
    if weight < w.quorum() as u128 {
        return Err(Reject::NoQuorum);
    }
    let d = vote_digest(&qc.hash, qc.round);
    for (name, sig) in &qc.votes {
        if !sig_ok(sig, &d, name) {
            return Err(Reject::BadCertSignature);
        }
    }
    Ok(())
}

/// A QC as embedded in a block or timeout: the genesis placeholder carries no signatures.
pub fn ref_qc_embedded(w: &World, qc: &QC) -> Result<(), Reject> {
    if is_genesis_qc(qc) {
        return Ok(());
    }
    ref_qc(w, qc)
}

pub fn ref_tc(w: &World, tc: &TC) -> Result<(), Reject> {
    let mut used = HashSet::new();
    let mut weight: u128 = 0;
    for (name, _, _) in &tc.votes {
        if !used.insert(*name) {
            return Err(Reject::Reuse);
        }
        let s = stake(w, name);
        if s == 0 {
            return Err(Reject::UnknownSigner);
        }
        weight += s as u128;
    }
    if weight < w.quorum() as u128 {
        return Err(Reject::NoQuorum);
    }
    for (name, sig, hr) in &tc.votes {
        if !sig_ok(sig, &timeout_digest(tc.round, *hr), name) {
            return Err(Reject::BadCertSignature);
        }
    }
    Ok(())
}

pub fn ref_block(w: &World, b: &Block) -> Result<(), Reject> {
    if stake(w, &b.author) == 0 {
        return Err(Reject::UnknownAuthor);
    }
    if !sig_ok(&b.signature, &block_digest(b), &b.author) {
        return Err(Reject::BadSignature);
    }
    ref_qc_embedded(w, &b.qc)?;
    if let Some(tc) = &b.tc {
        ref_tc(w, tc)?;
    }
    Ok(())
}

pub fn ref_vote(w: &World, v: &Vote) -> Result<(), Reject> {
    if stake(w, &v.author) == 0 {
        return Err(Reject::UnknownAuthor);
    }
    if !sig_ok(&v.signature, &vote_digest(&v.hash, v.round), &v.author) {
        return Err(Reject::BadSignature);
    }
    Ok(())
}

pub fn ref_timeout(w: &World, t: &Timeout) -> Result<(), Reject> {
    if stake(w, &t.author) == 0 {
        return Err(Reject::UnknownAuthor);
    }
    if !sig_ok(&t.signature, &timeout_digest(t.round, t.high_qc.round), &t.author) {
        return Err(Reject::BadSignature);
    }
    ref_qc_embedded(w, &t.high_qc)
}

/// True if some certificate inside the message names a committee member with zero stake; the
/// property text does not say whether such a signer counts, so differential checks skip these.
pub fn has_zero_stake_signer(w: &World, keys: impl Iterator<Item = PublicKey>) -> bool {
    for k in keys {
        if let Some(i) = w.index_of(&k) {
            if w.stakes[i] == 0 {
                return true;
            }
        }
    }
    false
}
