//! Generic driver: runs the parts of a property with proptest-generated cases on all cores, shrinks
//! failures, applies the known-findings list, writes the evidence and replay files.
use crate::tape::{fnv_case, Case};
use proptest::collection::vec;
use proptest::prelude::*;
use proptest::test_runner::{Config, RngAlgorithm, TestCaseError, TestError, TestRng, TestRunner};
use serde_json::{json, Value};
use std::collections::{BTreeMap, HashSet};
use std::sync::atomic::{AtomicBool, AtomicU64, Ordering};
use std::sync::{Arc, Mutex};
use std::time::{Duration, Instant};

#[derive(Clone, Debug)]
pub struct Violation {
    /// Exact signature used to key known findings (stable across seeds for one root cause).
    pub signature: String,
    pub detail: String,
    pub history: Value,
}

#[derive(Clone, Debug, Default)]
pub struct Outcome {
    pub nontrivial: bool,
    pub classes: Vec<String>,
    /// Hash identifying what the case exercised (for `distinct_nontrivial`); 0 = use hash of the case.
    pub fingerprint: u64,
    pub sample: Value,
    pub violations: Vec<Violation>,
}

impl Outcome {
    pub fn class(&mut self, c: &str) {
        self.classes.push(c.to_string());
    }
    pub fn violate(&mut self, signature: &str, detail: String, history: Value) {
        self.violations.push(Violation {
            signature: signature.to_string(),
            detail,
            history,
        });
    }
}

#[derive(Clone, Copy, PartialEq, Eq, Debug)]
pub enum Tier {
    Quick,
    Thorough,
}

#[derive(Clone)]
pub struct Ctx {
    pub tier: Tier,
    pub seed: u64,
    pub replay: bool,
}

pub type RunFn = fn(&Case, &Ctx) -> Outcome;

pub struct Part {
    pub name: &'static str,
    pub cfg_len: usize,
    pub tape_max: usize,
    pub quick: u64,
    pub thorough: u64,
    pub max_shrink_iters: u32,
    pub run: RunFn,
}

pub struct PropDef {
    pub id: &'static str,
    pub level: &'static str,
    pub rule: &'static str,
    pub assumptions: &'static [&'static str],
    pub parts: Vec<Part>,
}

#[derive(Default)]
struct PartStats {
    evaluations: u64,
    nontrivial: u64,
    distinct: HashSet<u64>,
    classes: BTreeMap<String, u64>,
    samples: Vec<Value>,
    known_hits: BTreeMap<String, (u64, String)>,
}

#[derive(Clone, Debug)]
pub struct KnownFinding {
    pub property: String,
    pub signature: String,
    pub description: String,
}

pub fn load_known_findings(path: &str) -> Vec<KnownFinding> {
    let mut out = Vec::new();
    if let Ok(text) = std::fs::read_to_string(path) {
        if let Ok(v) = serde_json::from_str::<Value>(&text) {
            if let Some(open) = v.get("open").and_then(|x| x.as_array()) {
                for e in open {
                    out.push(KnownFinding {
                        property: e["property"].as_str().unwrap_or("").to_string(),
                        signature: e["signature"].as_str().unwrap_or("").to_string(),
                        description: e["description"].as_str().unwrap_or("").to_string(),
                    });
                }
            }
        }
    }
    out
}

struct Failure {
    part: &'static str,
    case: Case,
    original: Case,
    violation: Violation,
    reproduced: bool,
}

fn strategy(cfg_len: usize, tape_max: usize) -> impl Strategy<Value = Case> {
    (vec(any::<u32>(), cfg_len), vec(any::<u32>(), 0..=tape_max)).prop_map(|(cfg, tape)| Case { cfg, tape })
}

fn seed_bytes(seed: u64, part: usize, worker: usize, prop: &str) -> [u8; 32] {
    let mut s = [0u8; 32];
    s[..8].copy_from_slice(&seed.to_le_bytes());
    s[8..16].copy_from_slice(&(part as u64).to_le_bytes());
    s[16..24].copy_from_slice(&(worker as u64).to_le_bytes());
    s[24..32].copy_from_slice(&crate::tape::fnv(prop.as_bytes()).to_le_bytes());
    s
}

pub fn workers() -> usize {
    std::env::var("VERIF_WORKERS")
        .ok()
        .and_then(|v| v.parse().ok())
        .unwrap_or_else(|| std::thread::available_parallelism().map(|n| n.get()).unwrap_or(8).min(16))
}

fn unknown_violations<'a>(out: &'a Outcome, known: &[KnownFinding], prop: &str) -> Vec<&'a Violation> {
    out.violations
        .iter()
        .filter(|v| !known.iter().any(|k| k.property == prop && k.signature == v.signature))
        .collect()
}

/// Run one case; a panic that escapes the case is a violation when it comes from the code under
/// test (or its dependencies) and a harness error (exit 2) when it comes from the harness itself.
pub fn run_case(part: &Part, case: &Case, ctx: &Ctx) -> Outcome {
    let before = crate::sim::panic_count();
    match std::panic::catch_unwind(std::panic::AssertUnwindSafe(|| (part.run)(case, ctx))) {
        Ok(out) => out,
        Err(_) => {
            let rec = crate::sim::last_panic_since(before);
            let (location, message) = match rec {
                Some(r) => (r.location, r.message),
                None => ("?".to_string(), "?".to_string()),
            };
            if location.starts_with("src/") {
                let path = format!("{}/replays/tmp-harness-error-{:016x}.json", verif_root(), fnv_case(case));
                let _ = std::fs::create_dir_all(format!("{}/replays", verif_root()));
                let _ = std::fs::write(&path, serde_json::to_string(&json!({"part": part.name, "case": case})).unwrap());
                println!("HARNESS-ERROR panic in the harness at {}: {} (case saved to {})", location, message, path);
                std::process::exit(2);
            }
            // the first panic of the case is the root cause; later ones usually follow from it
            let all = crate::sim::panics_since(before);
            let root = all.iter().find(|p| !p.location.starts_with("src/")).cloned();
            let (rl, rm) = root.map(|p| (p.location, p.message)).unwrap_or((location.clone(), message.clone()));
            let mut out = Outcome::default();
            out.violate(
                &format!("panic@{}", rl),
                format!("panic in the code under test at {}: {}", rl, rm),
                json!({"panics": all.iter().map(|p| format!("node {} {}: {}", p.node, p.location, p.message)).collect::<Vec<_>>()}),
            );
            out
        }
    }
}

pub fn verif_root() -> String {
    std::env::var("VERIF_ROOT").unwrap_or_else(|_| "/verif".to_string())
}

/// Parts that enumerate a finite space completely: (property, part) -> size of the space. The case
/// with index i carries cfg[0] = ceil(i * 2^32 / size), which the part maps back to i.
pub fn enumerated_space(prop: &str, part: &str) -> Option<u64> {
    match (prop, part) {
        ("C14", "enumerated-cuts") => Some(crate::props::c14::space_size()),
        _ => None,
    }
}

pub const BENCH_BUILD: bool = cfg!(feature = "benchmark");

/// Parts that are also run in the build with the repository's `benchmark` feature on.
pub fn runs_in_bench(prop: &str, part: &str) -> bool {
    match prop {
        "C11" => true,
        "C15" => part.starts_with("hostile"),
        _ => false,
    }
}

pub fn build_name() -> &'static str {
    if BENCH_BUILD {
        "benchmark"
    } else {
        "default"
    }
}

pub fn run_property(def: &PropDef, ctx: &Ctx, only_part: Option<&str>, scale: f64, evidence_out: Option<&str>) -> i32 {
    let t0 = Instant::now();
    let root = verif_root();
    let known = load_known_findings(&format!("{}/known_findings.json", root));
    let nworkers = workers();
    let budget_s: u64 = std::env::var("VERIF_BUDGET_S")
        .ok()
        .and_then(|v| v.parse().ok())
        .unwrap_or(match ctx.tier {
            Tier::Quick => 900,
            Tier::Thorough => 4 * 3600,
        });
    let deadline = t0 + Duration::from_secs(budget_s);
    let stop = Arc::new(AtomicBool::new(false));
    let budget_hit = Arc::new(AtomicBool::new(false));
    let failure: Arc<Mutex<Option<Failure>>> = Arc::new(Mutex::new(None));
    let mut part_reports = Vec::new();
    let mut total_eval = 0u64;
    let mut all_distinct: HashSet<u64> = HashSet::new();
    let mut all_classes: BTreeMap<String, u64> = BTreeMap::new();
    let mut all_samples: Vec<Value> = Vec::new();
    let mut all_known: BTreeMap<String, (u64, String)> = BTreeMap::new();

    // Watchdog: a single case that runs for more than HANG_S seconds of real time is a hang of the
    // harness or the code under test; report it as inconclusive (exit 2), never as a violation.
    let hang_s: u64 = std::env::var("VERIF_HANG_S").ok().and_then(|v| v.parse().ok()).unwrap_or(600);
    let heartbeats: Arc<Vec<AtomicU64>> = Arc::new((0..nworkers).map(|_| AtomicU64::new(0)).collect());
    {
        let hb = heartbeats.clone();
        let stop = stop.clone();
        let id = def.id;
        std::thread::spawn(move || loop {
            std::thread::sleep(Duration::from_secs(5));
            if stop.load(Ordering::Relaxed) {
                // still watch: shrinking may be in progress
            }
            let now = t0.elapsed().as_secs();
            for (w, h) in hb.iter().enumerate() {
                let started = h.load(Ordering::Relaxed);
                if started != 0 && now > started && now - started > hang_s {
                    println!(
                        "INCONCLUSIVE property={} worker {} stuck in one case for more than {} s (watchdog)",
                        id, w, hang_s
                    );
                    std::process::exit(2);
                }
            }
        });
    }

    for (pi, part) in def.parts.iter().enumerate() {
        if let Some(p) = only_part {
            if p != part.name {
                continue;
            }
        }
        if BENCH_BUILD && !runs_in_bench(def.id, part.name) {
            continue;
        }
        let total = ((match ctx.tier {
            Tier::Quick => part.quick,
            Tier::Thorough => part.thorough,
        }) as f64
            * scale)
            .ceil() as u64;
        let per_worker = (total + nworkers as u64 - 1) / nworkers as u64;
        let stats: Arc<Mutex<PartStats>> = Arc::new(Mutex::new(PartStats::default()));
        let pt0 = Instant::now();
        std::thread::scope(|scope| {
            for w in 0..nworkers {
                let stats = stats.clone();
                let stop = stop.clone();
                let budget_hit = budget_hit.clone();
                let failure = failure.clone();
                let known = known.clone();
                let ctx = ctx.clone();
                let hb = heartbeats.clone();
                let id = def.id;
                let builder = std::thread::Builder::new()
                    .name(format!("hsv-{}-{}", part.name, w))
                    .stack_size(64 << 20);
                builder
                    .spawn_scoped(scope, move || {
                        let per_worker = match enumerated_space(id, part.name) {
                            Some(size) => (0..size).filter(|i| (*i as usize) % nworkers == w).count() as u64,
                            None => per_worker,
                        };
                        let config = Config {
                            cases: per_worker as u32,
                            failure_persistence: None,
                            max_shrink_iters: part.max_shrink_iters,
                            max_global_rejects: 1,
                            verbose: 0,
                            ..Config::default()
                        };
                        let rng = TestRng::from_seed(RngAlgorithm::ChaCha, &seed_bytes(ctx.seed, pi, w, id));
                        let mut runner = TestRunner::new_with_rng(config, rng);
                        let local_cell = std::cell::RefCell::new(PartStats::default());
                        let failed_cell = std::cell::Cell::new(false);
                        let first_fail_cell: std::cell::RefCell<Option<(Case, Violation)>> = std::cell::RefCell::new(None);
                        let strat = strategy(part.cfg_len, part.tape_max);
                        let enumerated = enumerated_space(id, part.name);
                        let strat = match enumerated {
                            Some(size) => {
                                // worker w takes indices w, w+nworkers, ... (exhaustive, no randomness)
                                let idxs: Vec<u64> = (0..size).filter(|i| (*i as usize) % nworkers == w).collect();
                                let counter = std::sync::Arc::new(std::sync::atomic::AtomicUsize::new(0));
                                let n = idxs.len().max(1);
                                proptest::strategy::LazyJust::new(move || {
                                    let k = counter.fetch_add(1, Ordering::Relaxed) % n;
                                    let i = idxs.get(k).copied().unwrap_or(0);
                                    let cfg0 = (((i as u128) << 32) + size as u128 - 1) / size as u128;
                                    Case { cfg: vec![cfg0 as u32], tape: Vec::new() }
                                })
                                .boxed()
                            }
                            None => strat.boxed(),
                        };
                        let result = runner.run(&strat, |case| {
                            let failed = failed_cell.get();
                            let mut local = local_cell.borrow_mut();
                            if !failed {
                                if stop.load(Ordering::Relaxed) {
                                    return Ok(());
                                }
                                if Instant::now() > deadline {
                                    budget_hit.store(true, Ordering::Relaxed);
                                    return Ok(());
                                }
                            }
                            hb[w].store(t0.elapsed().as_secs().max(1), Ordering::Relaxed);
                            let out = run_case(part, &case, &ctx);
                            hb[w].store(0, Ordering::Relaxed);
                            let unknown = unknown_violations(&out, &known, id);
                            if failed {
                                // shrinking: only the verdict matters
                                return match unknown.first() {
                                    Some(v) => Err(TestCaseError::fail(v.signature.clone())),
                                    None => Ok(()),
                                };
                            }
                            local.evaluations += 1;
                            for v in &out.violations {
                                if known.iter().any(|k| k.property == id && k.signature == v.signature) {
                                    let e = local
                                        .known_hits
                                        .entry(v.signature.clone())
                                        .or_insert((0, v.detail.clone()));
                                    e.0 += 1;
                                }
                            }
                            for c in &out.classes {
                                *local.classes.entry(c.clone()).or_insert(0) += 1;
                            }
                            if out.nontrivial {
                                local.nontrivial += 1;
                                let fp = if out.fingerprint != 0 { out.fingerprint } else { fnv_case(&case) };
                                local.distinct.insert(fp);
                                if local.samples.len() < 2 && !out.sample.is_null() {
                                    local.samples.push(out.sample.clone());
                                }
                            }
                            if let Some(v) = unknown.first() {
                                failed_cell.set(true);
                                stop.store(true, Ordering::Relaxed);
                                *first_fail_cell.borrow_mut() = Some((case.clone(), (*v).clone()));
                                return Err(TestCaseError::fail(v.signature.clone()));
                            }
                            Ok(())
                        });
                        if let Err(TestError::Fail(_, shrunk)) = result {
                            let (orig, orig_v) = first_fail_cell.borrow().clone().expect("failure recorded");
                            // keep the shrunk case only if it fails again
                            let out = run_case(part, &shrunk, &ctx);
                            let again = unknown_violations(&out, &known, id).first().map(|v| (*v).clone());
                            let (case, violation, reproduced) = match again {
                                Some(v) => (shrunk, v, true),
                                None => {
                                    let out2 = run_case(part, &orig, &ctx);
                                    let rep = unknown_violations(&out2, &known, id).first().is_some();
                                    (orig.clone(), orig_v, rep)
                                }
                            };
                            let mut f = failure.lock().unwrap();
                            if f.is_none() {
                                *f = Some(Failure {
                                    part: part.name,
                                    case,
                                    original: orig,
                                    violation,
                                    reproduced,
                                });
                            }
                        } else if let Err(TestError::Abort(reason)) = result {
                            eprintln!("proptest aborted in {} worker {}: {}", part.name, w, reason);
                        }
                        let local = local_cell.into_inner();
                        let mut s = stats.lock().unwrap();
                        s.evaluations += local.evaluations;
                        s.nontrivial += local.nontrivial;
                        s.distinct.extend(local.distinct);
                        for (k, v) in local.classes {
                            *s.classes.entry(k).or_insert(0) += v;
                        }
                        for smp in local.samples {
                            if s.samples.len() < 4 {
                                s.samples.push(smp);
                            }
                        }
                        for (k, (n, d)) in local.known_hits {
                            let e = s.known_hits.entry(k).or_insert((0, d));
                            e.0 += n;
                        }
                    })
                    .expect("spawn worker");
            }
        });
        let s = stats.lock().unwrap();
        total_eval += s.evaluations;
        for d in &s.distinct {
            all_distinct.insert(d ^ crate::tape::fnv(part.name.as_bytes()));
        }
        for (k, v) in &s.classes {
            *all_classes.entry(format!("{}{}:{}", part.name, if BENCH_BUILD { "[benchmark]" } else { "" }, k)).or_insert(0) += v;
        }
        for smp in &s.samples {
            all_samples.push(json!({"part": part.name, "build": build_name(), "case": smp}));
        }
        for (k, (n, d)) in &s.known_hits {
            let e = all_known.entry(k.clone()).or_insert((0, d.clone()));
            e.0 += n;
        }
        part_reports.push(json!({
            "part": part.name,
            "build": build_name(),
            "planned_cases": enumerated_space(def.id, part.name).unwrap_or(total),
            "exhaustive": enumerated_space(def.id, part.name).is_some(),
            "evaluations": s.evaluations,
            "nontrivial": s.nontrivial,
            "distinct_nontrivial": s.distinct.len(),
            "wall_s": pt0.elapsed().as_secs_f64(),
        }));
        eprintln!(
            "[{}] part {}: {} cases, {} non-trivial ({} distinct), {:.1}s",
            def.id,
            part.name,
            s.evaluations,
            s.nontrivial,
            s.distinct.len(),
            pt0.elapsed().as_secs_f64()
        );
        if failure.lock().unwrap().is_some() {
            break;
        }
    }
    stop.store(true, Ordering::Relaxed);

    let fail = failure.lock().unwrap().take();
    let mut violations = 0;
    let mut replay_path = None;
    if let Some(f) = &fail {
        violations = 1;
        let h = fnv_case(&f.case);
        let path = format!("{}/replays/{}-{}{:016x}.json", root, def.id, if BENCH_BUILD { "bench-" } else { "" }, h);
        let _ = std::fs::create_dir_all(format!("{}/replays", root));
        let doc = json!({
            "property": def.id,
            "part": f.part,
            "build": build_name(),
            "seed": ctx.seed,
            "signature": f.violation.signature,
            "detail": f.violation.detail,
            "case": f.case,
            "original_case": f.original,
            "reproduced_on_rerun": f.reproduced,
            "history": f.violation.history,
        });
        let _ = std::fs::write(&path, serde_json::to_string_pretty(&doc).unwrap());
        replay_path = Some(path);
    }

    for (sig, (n, detail)) in &all_known {
        println!("KNOWN-FINDING: property={} {} [{} cases] {}", def.id, sig, n, first_line(detail));
    }

    let tier = match ctx.tier {
        Tier::Quick => "quick",
        Tier::Thorough => "thorough",
    };
    let evidence = json!({
        "property_id": def.id,
        "tier": tier,
        "seed": ctx.seed,
        "level": def.level,
        "coverage": {
            "evaluations": total_eval,
            "distinct_nontrivial": all_distinct.len(),
            "rule": def.rule,
            "samples": all_samples,
            "classes": all_classes,
            "parts": part_reports,
            "known_findings_excluded": all_known.iter().map(|(k, (n, _))| json!({"signature": k, "cases": n})).collect::<Vec<_>>(),
            "budget_exhausted": budget_hit.load(Ordering::Relaxed),
            "workers": nworkers,
            "exhaustive": false,
        },
        "assumptions": def.assumptions,
        "wall_s": t0.elapsed().as_secs_f64(),
        "violations": violations,
    });
    if let Some(path) = evidence_out {
        std::fs::write(path, serde_json::to_string_pretty(&evidence).unwrap()).expect("write evidence");
    } else if only_part.is_none() || std::env::var("VERIF_WRITE_EVIDENCE").is_ok() {
        let _ = std::fs::create_dir_all(format!("{}/evidence", root));
        let path = format!("{}/evidence/{}.json", root, def.id);
        std::fs::write(&path, serde_json::to_string_pretty(&evidence).unwrap()).expect("write evidence");
    }
    eprintln!(
        "[{}] tier={} seed={} evaluations={} distinct_nontrivial={} wall={:.1}s",
        def.id,
        tier,
        ctx.seed,
        total_eval,
        all_distinct.len(),
        t0.elapsed().as_secs_f64()
    );
    if let (Some(f), Some(path)) = (&fail, &replay_path) {
        println!("violation detail: [{}] {}", f.violation.signature, f.violation.detail);
        println!("VIOLATION property={} replay={}", def.id, path);
        return 1;
    }
    0
}

fn first_line(s: &str) -> String {
    let l = s.lines().next().unwrap_or("");
    if l.len() > 300 {
        format!("{}...", &l[..300])
    } else {
        l.to_string()
    }
}

pub fn replay(def: &PropDef, path: &str, ctx: &Ctx) -> i32 {
    let text = match std::fs::read_to_string(path) {
        Ok(t) => t,
        Err(e) => {
            eprintln!("cannot read replay file {}: {}", path, e);
            return 2;
        }
    };
    let doc: Value = serde_json::from_str(&text).expect("replay file is JSON");
    let part_name = doc["part"].as_str().unwrap_or("");
    let case: Case = serde_json::from_value(doc["case"].clone()).expect("replay file has a case");
    let part = match def.parts.iter().find(|p| p.name == part_name) {
        Some(p) => p,
        None => {
            eprintln!("unknown part {}", part_name);
            return 2;
        }
    };
    let known = load_known_findings(&format!("{}/known_findings.json", verif_root()));
    let mut ctx = ctx.clone();
    ctx.replay = true;
    let out = run_case(part, &case, &ctx);
    println!("replay of {} part {}: classes={:?}", def.id, part.name, out.classes);
    println!("sample: {}", serde_json::to_string_pretty(&out.sample).unwrap_or_default());
    let mut bad = false;
    for v in &out.violations {
        if known.iter().any(|k| k.property == def.id && k.signature == v.signature) {
            println!("KNOWN-FINDING: property={} {} {}", def.id, v.signature, first_line(&v.detail));
        } else {
            println!("violation detail: [{}] {}", v.signature, v.detail);
            println!("history: {}", serde_json::to_string_pretty(&v.history).unwrap_or_default());
            bad = true;
        }
    }
    if bad {
        println!("VIOLATION property={} replay={}", def.id, path);
        1
    } else {
        println!("replay did not violate the property");
        0
    }
}


/// Merge the evidence written by the default build and by the benchmark-feature build of one check.
pub fn merge_evidence(id: &str, a: &str, b: &str) -> i32 {
    let load = |p: &str| -> Option<Value> { std::fs::read_to_string(p).ok().and_then(|t| serde_json::from_str(&t).ok()) };
    let (ea, eb) = match (load(a), load(b)) {
        (Some(x), Some(y)) => (x, y),
        (Some(x), None) => (x.clone(), json!({"coverage": {"evaluations": 0, "distinct_nontrivial": 0, "samples": [], "classes": {}, "parts": []}, "wall_s": 0.0, "violations": 0})),
        _ => {
            eprintln!("merge: cannot read {}", a);
            return 2;
        }
    };
    let mut out = ea.clone();
    let ca = &ea["coverage"];
    let cb = &eb["coverage"];
    let sum = |k: &str| ca[k].as_u64().unwrap_or(0) + cb[k].as_u64().unwrap_or(0);
    let mut samples = ca["samples"].as_array().cloned().unwrap_or_default();
    samples.extend(cb["samples"].as_array().cloned().unwrap_or_default());
    let mut classes = ca["classes"].as_object().cloned().unwrap_or_default();
    for (k, v) in cb["classes"].as_object().cloned().unwrap_or_default() {
        classes.insert(k, v);
    }
    let mut parts = ca["parts"].as_array().cloned().unwrap_or_default();
    parts.extend(cb["parts"].as_array().cloned().unwrap_or_default());
    let mut known = ca["known_findings_excluded"].as_array().cloned().unwrap_or_default();
    known.extend(cb["known_findings_excluded"].as_array().cloned().unwrap_or_default());
    out["coverage"]["evaluations"] = json!(sum("evaluations"));
    out["coverage"]["distinct_nontrivial"] = json!(sum("distinct_nontrivial"));
    out["coverage"]["samples"] = json!(samples);
    out["coverage"]["classes"] = json!(classes);
    out["coverage"]["parts"] = json!(parts);
    out["coverage"]["known_findings_excluded"] = json!(known);
    out["coverage"]["builds"] = json!(["default", "benchmark feature"]);
    out["coverage"]["budget_exhausted"] = json!(ca["budget_exhausted"].as_bool().unwrap_or(false) || cb["budget_exhausted"].as_bool().unwrap_or(false));
    out["wall_s"] = json!(ea["wall_s"].as_f64().unwrap_or(0.0) + eb["wall_s"].as_f64().unwrap_or(0.0));
    out["violations"] = json!(ea["violations"].as_i64().unwrap_or(0) + eb["violations"].as_i64().unwrap_or(0));
    let root = verif_root();
    let _ = std::fs::create_dir_all(format!("{}/evidence", root));
    std::fs::write(format!("{}/evidence/{}.json", root, id), serde_json::to_string_pretty(&out).unwrap()).expect("write evidence");
    0
}
