//! hsv — property-based verification harness for asonnino/hotstuff (see /verif/DESIGN.md).
#![allow(dead_code)]
#![allow(clippy::too_many_arguments)]

#[path = "/repo/node/src/config.rs"]
mod config;
mod cluster;
#[path = "/repo/node/src/node.rs"]
mod node;

mod props;
mod refvalid;
mod rig;
mod runner;
mod sim;
mod solo;
mod tape;
mod world;

use runner::{Ctx, Tier};

fn usage() -> ! {
    eprintln!("usage: hsv <property-id> [--tier quick|thorough] [--replay <file>] [--part <name>] [--scale <f>] | hsv list");
    std::process::exit(2)
}

fn main() {
    let args: Vec<String> = std::env::args().skip(1).collect();
    if args.is_empty() {
        usage();
    }
    let defs = props::all();
    if args[0] == "list" {
        for d in &defs {
            println!("{} parts: {:?}", d.id, d.parts.iter().map(|p| p.name).collect::<Vec<_>>());
        }
        return;
    }
    if args[0] == "gen-corpus" {
        // seed corpus for the optional libFuzzer targets: valid encodings of every message variant
        let dir = args.get(1).cloned().unwrap_or_else(|| "fuzz/corpus".to_string());
        let w = world::World::new(&[1, 2, 1, 1], 0);
        let data = [7u32; 8];
        let mut t = tape::Tape::new(&data);
        std::fs::create_dir_all(format!("{}/wire_consensus", dir)).unwrap();
        std::fs::create_dir_all(format!("{}/wire_mempool", dir)).unwrap();
        std::fs::create_dir_all(format!("{}/keys", dir)).unwrap();
        for (i, m) in props::c15::valid_consensus_messages(&w, &mut t).iter().enumerate() {
            std::fs::write(format!("{}/wire_consensus/valid-{}", dir, i), bincode::serialize(m).unwrap()).unwrap();
        }
        let batch = mempool::MempoolMessage::Batch(vec![vec![1, 2, 3], vec![], vec![9; 40]]);
        std::fs::write(format!("{}/wire_mempool/batch", dir), bincode::serialize(&batch).unwrap()).unwrap();
        let req = mempool::MempoolMessage::BatchRequest(vec![world::sha512_32(b"x")], w.pk(0));
        std::fs::write(format!("{}/wire_mempool/request", dir), bincode::serialize(&req).unwrap()).unwrap();
        std::fs::write(format!("{}/keys/public", dir), w.pk(0).encode_base64()).unwrap();
        std::fs::write(format!("{}/keys/secret", dir), w.keys[0].1.encode_base64()).unwrap();
        println!("corpus written to {}", dir);
        return;
    }
    if args[0] == "merge" {
        if args.len() != 4 {
            usage();
        }
        std::process::exit(runner::merge_evidence(&args[1], &args[2], &args[3]));
    }
    let id = args[0].clone();
    let mut tier = match std::env::var("VERIF_TIER").as_deref() {
        Ok("thorough") => Tier::Thorough,
        _ => Tier::Quick,
    };
    let mut replay = None;
    let mut part = None;
    let mut scale = 1.0f64;
    let mut evidence_out: Option<String> = None;
    let mut i = 1;
    while i < args.len() {
        match args[i].as_str() {
            "--tier" => {
                i += 1;
                tier = match args.get(i).map(|s| s.as_str()) {
                    Some("quick") => Tier::Quick,
                    Some("thorough") => Tier::Thorough,
                    _ => usage(),
                };
            }
            "--replay" => {
                i += 1;
                replay = args.get(i).cloned();
            }
            "--part" => {
                i += 1;
                part = args.get(i).cloned();
            }
            "--evidence-out" => {
                i += 1;
                evidence_out = args.get(i).cloned();
            }
            "--scale" => {
                i += 1;
                scale = args.get(i).and_then(|s| s.parse().ok()).unwrap_or(1.0);
            }
            _ => usage(),
        }
        i += 1;
    }
    let seed: u64 = std::env::var("VERIF_SEED").ok().and_then(|s| s.parse().ok()).unwrap_or(1);
    let def = match defs.iter().find(|d| d.id == id) {
        Some(d) => d,
        None => {
            eprintln!("unknown property {}", id);
            std::process::exit(2);
        }
    };
    sim::install_panic_hook();
    let ctx = Ctx { tier, seed, replay: false };
    let code = match replay {
        Some(path) => runner::replay(def, &path, &ctx),
        None => runner::run_property(def, &ctx, part.as_deref(), scale, evidence_out.as_deref()),
    };
    std::process::exit(code);
}
