//! Shared rig plumbing: starting real nodes through the real `node.rs` wiring, puppet listeners that
//! play the other authorities, harness-side connections, and typed views over the event log.
use crate::sim::{self, log, Ev, Event};
use crate::world::{addr, node_of_port, port_kind, PortKind, World, CONSENSUS_PORT, MEMPOOL_PORT, TX_PORT};
use bytes::Bytes;
use consensus::{Block, ConsensusMessage, Timeout, Vote, TC};
use crypto::{Digest, PublicKey};
use futures::{SinkExt, StreamExt};
use mempool::MempoolMessage;
use network::simnet::{self, TcpListener, TcpStream};
use std::collections::HashMap;
use std::rc::Rc;
use std::sync::{Arc, Mutex};
use tokio_util::codec::{Framed, LengthDelimitedCodec};

#[derive(Clone, Debug)]
pub struct NodeParams {
    pub timeout_delay: u64,
    pub sync_retry_delay: u64,
    pub gc_depth: u64,
    pub mempool_sync_retry_delay: u64,
    pub sync_retry_nodes: usize,
    pub batch_size: usize,
    pub max_batch_delay: u64,
}

impl Default for NodeParams {
    fn default() -> Self {
        Self {
            timeout_delay: 1_000,
            sync_retry_delay: 2_000,
            gc_depth: 50,
            mempool_sync_retry_delay: 1_000,
            sync_retry_nodes: 3,
            batch_size: 200,
            max_batch_delay: 50,
        }
    }
}

/// Start authority `i` as a real node through the repository's own `Node::new` (JSON committee, key
/// and parameter files; shared RocksDB store); its commit channel is drained into the event log.
pub async fn start_real_node(w: &World, i: usize, dir: &str, p: &NodeParams) {
    use crate::config::{Committee as NodeCommittee, Export, Parameters, Secret};
    let id = i as u32 + 1;
    let committee_file = format!("{}/committee-{}.json", dir, i);
    let key_file = format!("{}/key-{}.json", dir, i);
    let params_file = format!("{}/params-{}.json", dir, i);
    let store_path = format!("{}/db-{}", dir, i);
    NodeCommittee {
        consensus: w.ccom.clone(),
        mempool: w.mcom.clone(),
    }
    .write(&committee_file)
    .expect("write committee file");
    Secret {
        name: w.pk(i),
        secret: crate::world::clone_secret(&w.keys[i].1),
    }
    .write(&key_file)
    .expect("write key file");
    Parameters {
        consensus: consensus::Parameters {
            timeout_delay: p.timeout_delay,
            sync_retry_delay: p.sync_retry_delay,
        },
        mempool: mempool::Parameters {
            gc_depth: p.gc_depth,
            sync_retry_delay: p.mempool_sync_retry_delay,
            sync_retry_nodes: p.sync_retry_nodes,
            batch_size: p.batch_size,
            max_batch_delay: p.max_batch_delay,
        },
    }
    .write(&params_file)
    .expect("write parameters file");
    let prev = simnet::current_node();
    simnet::set_current_node(id);
    let node = crate::node::Node::new(&committee_file, &key_file, &store_path, Some(params_file)).await;
    let mut node = match node {
        Ok(n) => n,
        Err(e) => panic!("Node::new failed: {}", e),
    };
    // The drain task belongs to the harness (node 0) but records the node id.
    simnet::set_current_node(0);
    tokio::spawn(async move {
        loop {
            // a lagging application: while paused, nothing is taken from the commit channel
            while COMMIT_DRAIN_PAUSED.with(|p| p.get()) {
                tokio::time::sleep(std::time::Duration::from_millis(1)).await;
            }
            let block = match node.commit.recv().await {
                Some(b) => b,
                None => break,
            };
            log(Ev::Commit {
                node: id,
                block: Rc::new(block),
            });
        }
    });
    simnet::set_current_node(prev);
}

thread_local! {
    static COMMIT_DRAIN_PAUSED: std::cell::Cell<bool> = std::cell::Cell::new(false);
}

/// Pause / resume the harness task that plays the application reading a node's commit channel.
pub fn set_commit_drain_paused(paused: bool) {
    COMMIT_DRAIN_PAUSED.with(|p| p.set(paused));
}

/// What the puppets have received from real nodes; read by the scripts to react.
#[derive(Default)]
pub struct Inbox {
    pub proposals: Vec<(u32, Block)>,
    pub votes: Vec<(u32, Vote)>,
    pub timeouts: Vec<(u32, Timeout)>,
    pub tcs: Vec<(u32, TC)>,
    /// (requested digest, requester key, puppet that received the request)
    pub sync_requests: Vec<(Digest, PublicKey, usize)>,
    pub batch_requests: Vec<(Vec<Digest>, PublicKey, usize)>,
    pub batches: Vec<(Vec<u8>, usize)>,
    pub undecodable: u64,
    /// Puppets for which proposals are not acknowledged / batches are not acknowledged.
    pub no_ack_proposal: Vec<usize>,
    pub no_ack_batch: Vec<usize>,
    /// Every frame a puppet received, in arrival order: (puppet, port kind, sender node, bytes).
    pub frames: u64,
}

pub type SharedInbox = Arc<Mutex<Inbox>>;

/// Bind the consensus and mempool ports of puppet `i` and record what arrives.
pub async fn start_puppet(i: usize, inbox: SharedInbox) {
    let id = i as u32 + 1;
    for (base, kind) in [(CONSENSUS_PORT, PortKind::Consensus), (MEMPOOL_PORT, PortKind::Mempool)] {
        let listener = match TcpListener::bind(&addr(base + i as u16)).await {
            Ok(l) => l,
            Err(e) => panic!("puppet bind failed: {}", e),
        };
        let inbox = inbox.clone();
        let prev = simnet::current_node();
        simnet::set_current_node(id);
        tokio::spawn(async move {
            loop {
                let (socket, _) = match listener.accept().await {
                    Ok(x) => x,
                    Err(_) => continue,
                };
                let inbox = inbox.clone();
                tokio::spawn(async move {
                    let mut framed = Framed::new(socket, LengthDelimitedCodec::new());
                    while let Some(Ok(frame)) = framed.next().await {
                        let bytes = frame.freeze();
                        let mut ack = false;
                        {
                            let mut ib = inbox.lock().unwrap();
                            ib.frames += 1;
                            match kind {
                                PortKind::Consensus => match bincode::deserialize::<ConsensusMessage>(&bytes) {
                                    Ok(ConsensusMessage::Propose(b)) => {
                                        ack = !ib.no_ack_proposal.contains(&i);
                                        ib.proposals.push((id, b));
                                    }
                                    Ok(ConsensusMessage::Vote(v)) => ib.votes.push((id, v)),
                                    Ok(ConsensusMessage::Timeout(t)) => ib.timeouts.push((id, t)),
                                    Ok(ConsensusMessage::TC(t)) => ib.tcs.push((id, t)),
                                    Ok(ConsensusMessage::SyncRequest(d, k)) => ib.sync_requests.push((d, k, i)),
                                    Err(_) => ib.undecodable += 1,
                                },
                                _ => {
                                    ack = !ib.no_ack_batch.contains(&i);
                                    match bincode::deserialize::<MempoolMessage>(&bytes) {
                                        Ok(MempoolMessage::Batch(_)) => ib.batches.push((bytes.to_vec(), i)),
                                        Ok(MempoolMessage::BatchRequest(ds, k)) => ib.batch_requests.push((ds, k, i)),
                                        Err(_) => ib.undecodable += 1,
                                    }
                                }
                            }
                        }
                        if ack {
                            let _ = framed.send(Bytes::from("Ack")).await;
                        }
                    }
                });
            }
        });
        simnet::set_current_node(prev);
    }
}

/// Harness-side connections, one per (acting node, destination port).
#[derive(Default)]
pub struct Conns {
    map: HashMap<(u32, u16), Framed<TcpStream, LengthDelimitedCodec>>,
}

impl Conns {
    /// Send one frame as node `from` to `port`, reconnecting once if the kept connection was closed
    /// by the peer (a receiver drops the connection after an undecodable frame); returns false if
    /// the connection could not be made.
    pub async fn send(&mut self, from: u32, port: u16, bytes: Vec<u8>) -> bool {
        for _attempt in 0..2 {
            if !self.map.contains_key(&(from, port)) {
                simnet::set_current_node(from);
                let s = TcpStream::connect(addr(port)).await;
                simnet::set_current_node(0);
                match s {
                    Ok(s) => {
                        self.map.insert((from, port), Framed::new(s, LengthDelimitedCodec::builder().max_frame_length(64 << 20).new_codec()));
                    }
                    Err(_) => return false,
                }
            }
            let framed = self.map.get_mut(&(from, port)).unwrap();
            simnet::set_current_node(from);
            let r = framed.send(Bytes::from(bytes.clone())).await;
            simnet::set_current_node(0);
            if r.is_ok() {
                return true;
            }
            self.map.remove(&(from, port));
        }
        false
    }

    pub fn drop_conn(&mut self, from: u32, port: u16) {
        self.map.remove(&(from, port));
    }

    pub async fn consensus(&mut self, from_idx: usize, to_idx: usize, msg: &ConsensusMessage) -> bool {
        let bytes = bincode::serialize(msg).expect("serialize consensus message");
        self.send(from_idx as u32 + 1, CONSENSUS_PORT + to_idx as u16, bytes).await
    }

    pub async fn mempool(&mut self, from_idx: usize, to_idx: usize, bytes: Vec<u8>) -> bool {
        self.send(from_idx as u32 + 1, MEMPOOL_PORT + to_idx as u16, bytes).await
    }

    pub async fn tx(&mut self, client: u32, to_idx: usize, bytes: Vec<u8>) -> bool {
        self.send(client, TX_PORT + to_idx as u16, bytes).await
    }
}

/// Typed view of the log from the point of view of one real node.
#[derive(Clone, Debug)]
pub enum HEv {
    /// Consensus message written by the node to a peer's consensus port.
    Out { to: u32, msg: Rc<ConsensusMessage> },
    /// Consensus message delivered to the node's consensus port.
    In { from: u32, msg: Rc<ConsensusMessage> },
    /// Undecodable frame delivered to the node's consensus port.
    InJunk { from: u32 },
    MempoolOut { to: u32, msg: Rc<MempoolMessage>, bytes: Rc<Vec<u8>> },
    MempoolIn { from: u32, bytes: Rc<Vec<u8>> },
    /// Reply frame (ACK) delivered to the node on a connection it opened.
    AckIn { from_port: u16, conn: u64 },
    Commit(Rc<Block>),
    StoreWrite(Vec<u8>),
    Panic(sim::PanicRec),
}

#[derive(Clone, Debug)]
pub struct HEvent {
    pub seq: u64,
    pub t_us: u64,
    pub ev: HEv,
}

/// Extract the history of real node `id` (1-based).
pub fn node_history(log: &[Event], id: u32) -> Vec<HEvent> {
    let mut out = Vec::new();
    for e in log {
        let ev = match &e.ev {
            Ev::Sent { info, bytes, .. } if info.writer_node == id && info.forward => match port_kind(info.dst_port) {
                PortKind::Consensus => match bincode::deserialize::<ConsensusMessage>(bytes) {
                    Ok(m) => Some(HEv::Out { to: node_of_port(info.dst_port), msg: Rc::new(m) }),
                    Err(_) => None,
                },
                PortKind::Mempool => match bincode::deserialize::<MempoolMessage>(bytes) {
                    Ok(m) => Some(HEv::MempoolOut { to: node_of_port(info.dst_port), msg: Rc::new(m), bytes: bytes.clone() }),
                    Err(_) => None,
                },
                _ => None,
            },
            Ev::Delivered { info, bytes } if info.forward && node_of_port(info.dst_port) == id && !info.raw => match port_kind(info.dst_port) {
                PortKind::Consensus => match bincode::deserialize::<ConsensusMessage>(bytes) {
                    Ok(m) => Some(HEv::In { from: info.src_node, msg: Rc::new(m) }),
                    Err(_) => Some(HEv::InJunk { from: info.src_node }),
                },
                PortKind::Mempool => Some(HEv::MempoolIn { from: info.src_node, bytes: bytes.clone() }),
                _ => None,
            },
            Ev::Delivered { info, .. } if !info.forward && info.src_node == id => Some(HEv::AckIn { from_port: info.dst_port, conn: info.conn }),
            Ev::Commit { node, block } if *node == id => Some(HEv::Commit(block.clone())),
            Ev::StoreWrite { node, key, .. } if *node == id => Some(HEv::StoreWrite(key.clone())),
            Ev::Panic(p) if p.node == id => Some(HEv::Panic(p.clone())),
            _ => None,
        };
        if let Some(ev) = ev {
            out.push(HEvent { seq: e.seq, t_us: e.t_us, ev });
        }
    }
    out
}

pub fn short(d: &Digest) -> String {
    base64::encode(&d.0[..6])
}
