//! Solo rig: one real node (the SUT, started through the real node.rs wiring) surrounded by puppets
//! that together hold at least a quorum, so the tape-driven script can manufacture any certified
//! chain, any vote / timeout / TC pattern, answer sync and batch requests or not.
use crate::refvalid;
use crate::rig::{self, Conns, HEv, HEvent, Inbox, NodeParams, SharedInbox};
use crate::sim::{self, ms, us, Event, RigPolicy};
use crate::tape::{cfg_range, Case, Tape};
use crate::world::{sha512_32, World};
use consensus::{Block, ConsensusMessage, Timeout, Vote, QC, TC};
use crypto::{Digest, Hash as _, PublicKey};
use mempool::MempoolMessage;
use network::simnet::{self, ConnectDecision, FrameDecision};
use serde_json::{json, Value};
use std::collections::{BTreeMap, BTreeSet, HashMap, HashSet};
use std::sync::{Arc, Mutex};

pub const CFG_LEN: usize = 8;

/// Step weights per profile: which kinds of stimuli the script prefers.
#[derive(Clone, Copy, Debug, PartialEq, Eq)]
pub enum Profile {
    /// Chain shapes: gaps, forks, orphans, children-first delivery (C02, C05, C07-like sync).
    Chains,
    /// Refusal opportunities: equivocation, proposals after timeouts, unsafe gaps and TCs (C03, C09, C10).
    Voting,
    /// Payloads with batches present / late / on request / never (C08).
    Payloads,
    /// Vote / timeout arrival patterns at a SUT that is the next leader (C19).
    Certs,
    /// Balanced mix.
    Mixed,
}

#[derive(Clone, Debug, Default)]
pub struct Knobs {
    /// Hostile input is injected on the three ports between the steps (C15).
    pub hostile: bool,
    /// Functional probes run at the end (C15): vote, block sync, batch sync, batching.
    pub probes: bool,
    /// Maximum number of script steps (0 = default).
    pub max_steps: usize,
    /// One stimulus per instant (C04b): every frame to the node is followed by a 2 ms gap.
    pub serial: bool,
    /// 0: nothing; 1: injection points are timed no-ops (baseline run); 2: at each injection point a
    /// message that the reference predicate rejects is sent on a dedicated connection.
    pub inject: u8,
    /// Seed of the side stream that places the injection points (same in both runs of a pair).
    pub inject_seed: u64,
}

pub struct SoloRun {
    pub w: World,
    pub sut: usize,
    pub sut_id: u32,
    pub params: NodeParams,
    pub log: Vec<Event>,
    pub hist: Vec<HEvent>,
    pub blocks: HashMap<Digest, Block>,
    pub batches: HashMap<Digest, Vec<u8>>,
    pub steps: Vec<Value>,
    pub stats: BTreeMap<String, u64>,
    pub panics: Vec<sim::PanicRec>,
    /// (probe name, passed, detail) of the functional probes run at the end (C15).
    pub probes: Vec<(String, bool, String)>,
    /// Classes of hostile input that were injected, with whether they decoded to a message.
    pub hostile: Vec<(String, bool)>,
    /// Names of the messages injected (or that would have been injected in the baseline run).
    pub injected: Vec<String>,
}

struct Script<'a, 'b> {
    t: &'a mut Tape<'b>,
    w: &'a World,
    sut: usize,
    puppets: Vec<usize>,
    conns: Conns,
    inbox: SharedInbox,
    blocks: HashMap<Digest, Block>,
    /// digests of blocks sent to (or proposed by) the SUT, in order
    delivered: Vec<Digest>,
    batches: HashMap<Digest, Vec<u8>>,
    /// highest-round block on the main line that the SUT should know
    tip: Option<Digest>,
    /// harness's estimate of the SUT's round
    cur: u64,
    /// a TC the script has produced for round cur-1 (to embed in the next proposal)
    pending_tc: Option<TC>,
    steps: Vec<Value>,
    stats: BTreeMap<String, u64>,
    seen_sut_props: usize,
    params: NodeParams,
    withheld: Vec<Digest>,
    served_sync: usize,
    served_batch: usize,
    batch_counter: u64,
    /// batches referenced by some block but not delivered to the node by the script (yet)
    unserved: Vec<Digest>,
    /// Certification discipline (soundness of the generator): the puppets hold more than f stake, so
    /// the script only lets them certify what an honest majority could certify - one block per
    /// round, safe extensions by the round's leader, in increasing round order, and always a
    /// descendant of the head of the latest consecutive certified pair.
    certified: HashSet<Digest>,
    cert_max: u64,
    anchor: Option<Digest>,
    probes: Vec<(String, bool, String)>,
    hostile: Vec<(String, bool)>,
    serial: bool,
    inject: u8,
    side: u64,
    inject_conns: Conns,
    injected: Vec<String>,
    /// blocks the script built with a forged certificate (keyed by the hash of their encoding)
    forged: HashSet<u64>,
}

fn genesis_digest() -> Digest {
    Digest::default()
}

impl<'a, 'b> Script<'a, 'b> {
    fn stat(&mut self, k: &str) {
        *self.stats.entry(k.to_string()).or_insert(0) += 1;
    }

    fn note(&mut self, v: Value) {
        if self.steps.len() < 400 {
            self.steps.push(v);
        }
    }

    fn register(&mut self, b: &Block) -> Digest {
        let d = b.digest();
        // one digest may have several variants (the TC is not covered): keep a voteable one
        let replace = match self.blocks.get(&d) {
            None => true,
            Some(old) => !self.safe_extension(old) && self.safe_extension(b),
        };
        if replace {
            self.blocks.insert(d.clone(), b.clone());
        }
        d
    }

    fn round_of(&self, d: &Digest) -> u64 {
        self.blocks.get(d).map(|b| b.round).unwrap_or(0)
    }

    /// Puppet signer set reaching the quorum, in tape-chosen order, optionally with the SUT's own
    /// vote (taken from the inbox, never forged).
    fn puppet_quorum(&mut self) -> Vec<usize> {
        let mut order = self.puppets.clone();
        for i in (1..order.len()).rev() {
            let j = self.t.below(i + 1);
            order.swap(i, j);
        }
        self.w.quorum_subset(&order).unwrap_or(order)
    }

    fn descends_from(&self, d: &Digest, anc: &Digest) -> bool {
        let mut cur = d.clone();
        let mut guard = 0;
        loop {
            if cur == *anc {
                return true;
            }
            match self.blocks.get(&cur) {
                Some(b) => cur = b.qc.hash.clone(),
                None => return false,
            }
            guard += 1;
            if guard > 5_000 {
                return false;
            }
        }
    }

    fn safe_extension(&self, b: &Block) -> bool {
        let by_qc = b.qc.round + 1 == b.round;
        let by_tc = b.tc.as_ref().map_or(false, |tc| tc.round + 1 == b.round && tc.votes.iter().all(|(_, _, hr)| b.qc.round >= *hr));
        b.qc.round < b.round && (by_qc || by_tc) && self.w.index_of(&b.author) == Some(self.w.leader(b.round)) && self.acceptable(b)
    }

    /// Would an honest node accept the block at all? Blocks carrying forged certificates are offered
    /// to the node, but the puppets - who stand for a network with an honest majority - never vote
    /// for, certify or extend them.
    fn acceptable(&self, b: &Block) -> bool {
        !self.forged.contains(&crate::tape::fnv(&bincode::serialize(b).unwrap()))
    }

    fn mark_forged(&mut self, b: &Block) {
        self.forged.insert(crate::tape::fnv(&bincode::serialize(b).unwrap()));
    }

    /// The puppet that plays "the" Byzantine member for correctly signed but absurd content: the one
    /// with the smallest stake, provided that stake is at most f = floor((total - 1) / 3).
    fn byzantine_puppet(&self) -> Option<usize> {
        let f = (self.w.total_stake() - 1) / 3;
        let b = self.puppets.iter().copied().min_by_key(|p| (self.w.stake_of(&[*p]), *p))?;
        if self.w.stake_of(&[b]) <= f {
            Some(b)
        } else {
            None
        }
    }

    /// May the puppets produce (or help produce) a QC for this block?
    fn can_certify(&self, d: &Digest) -> bool {
        if *d == genesis_digest() {
            return true;
        }
        if self.certified.contains(d) {
            return true;
        }
        let b = match self.blocks.get(d) {
            Some(b) => b,
            None => return false,
        };
        let parent_ok = refvalid::is_genesis_qc(&b.qc) || self.certified.contains(&b.qc.hash);
        b.round > self.cert_max && parent_ok && self.safe_extension(b) && self.anchor.as_ref().map_or(true, |a| self.descends_from(d, a))
    }

    fn mark_certified(&mut self, d: &Digest) {
        if *d == genesis_digest() || !self.certified.insert(d.clone()) {
            return;
        }
        let b = self.blocks[d].clone();
        self.cert_max = self.cert_max.max(b.round);
        if self.certified.contains(&b.qc.hash) && self.round_of(&b.qc.hash) + 1 == b.round {
            self.anchor = Some(b.qc.hash.clone());
        }
    }

    /// May a block built on `d` be certified later (d certifiable and on the anchored chain)?
    fn extendable(&self, d: &Digest) -> bool {
        if *d == genesis_digest() {
            return self.anchor.is_none();
        }
        self.can_certify(d) && self.anchor.as_ref().map_or(true, |a| self.descends_from(d, a))
    }

    /// Highest block known to the node that the puppets may certify and extend (genesis if none).
    fn best_parent(&self) -> Digest {
        let mut best = genesis_digest();
        let mut best_round = 0;
        for d in &self.delivered {
            let r = self.round_of(d);
            if r > best_round && self.extendable(d) {
                best = d.clone();
                best_round = r;
            }
        }
        best
    }

    /// The tip if it may be certified, otherwise the best certifiable block.
    fn sound_tip(&mut self) -> Digest {
        match self.tip.clone() {
            Some(t) if self.extendable(&t) && self.delivered.contains(&t) => t,
            _ => {
                let b = self.best_parent();
                self.tip = if b == genesis_digest() { None } else { Some(b.clone()) };
                b
            }
        }
    }

    fn qc_of(&mut self, d: &Digest) -> QC {
        if *d == genesis_digest() {
            return QC::genesis();
        }
        if !self.can_certify(d) {
            let b = self.blocks.get(d).cloned();
            let why = b.map(|b| {
                format!(
                    "round {} cert_max {} parent_ok {} safe {} anchor_desc {} steps {}",
                    b.round,
                    self.cert_max,
                    refvalid::is_genesis_qc(&b.qc) || self.certified.contains(&b.qc.hash),
                    self.safe_extension(&b),
                    self.anchor.as_ref().map_or(true, |a| self.descends_from(d, a)),
                    self.steps.iter().rev().take(12).map(|s| s.to_string()).collect::<Vec<_>>().join(" <- ")
                )
            });
            panic!("generator soundness: certifying an uncertifiable block: {:?}", why);
        }
        self.mark_certified(d);
        let round = self.round_of(d);
        let signers = self.puppet_quorum();
        self.w.qc_for(d.clone(), round, &signers)
    }

    fn leader_is_sut(&self, round: u64) -> bool {
        self.w.leader(round) == self.sut
    }

    async fn settle(&mut self) {
        tokio::time::sleep(ms(6)).await;
        self.absorb();
    }

    async fn pause(&mut self) {
        // 0: settle; 1: nothing (same instant -> races); 2: short; 3: long
        match self.t.weighted(&[10, 3, 2, 1]) {
            0 => self.settle().await,
            1 if self.serial => self.settle().await,
            1 => {}
            2 => {
                let d = self.t.range(1, 40);
                tokio::time::sleep(ms(d)).await;
                self.absorb();
            }
            _ => {
                let d = self.t.range(self.params.timeout_delay / 2, self.params.timeout_delay * 2);
                tokio::time::sleep(ms(d)).await;
                self.absorb();
            }
        }
    }

    /// Take note of what the SUT sent to the puppets (its proposals become known blocks).
    fn absorb(&mut self) {
        let (props, max_round): (Vec<Block>, u64) = {
            let ib = self.inbox.lock().unwrap();
            let props: Vec<Block> = ib.proposals.iter().skip(self.seen_sut_props).map(|(_, b)| b.clone()).collect();
            let mut m = 0;
            for (_, v) in &ib.votes {
                m = m.max(v.round);
            }
            for (_, x) in &ib.timeouts {
                m = m.max(x.round);
            }
            for (_, x) in &ib.tcs {
                m = m.max(x.round + 1);
            }
            (props, m)
        };
        self.seen_sut_props += props.len();
        for b in props {
            if b.author == self.w.pk(self.sut) {
                let d = self.register(&b);
                if !self.delivered.contains(&d) {
                    self.delivered.push(d.clone());
                }
                // its own proposal extends its view: adopt as tip if it is the highest
                let better = match &self.tip {
                    Some(t) => b.round > self.round_of(t),
                    None => true,
                };
                if better {
                    self.tip = Some(d);
                }
                self.cur = self.cur.max(b.round);
            }
        }
        self.cur = self.cur.max(max_round);
    }

    async fn send_to_sut(&mut self, from: usize, msg: &ConsensusMessage) {
        let sut = self.sut;
        let _ = self.conns.consensus(from, sut, msg).await;
        if self.serial {
            tokio::time::sleep(ms(2)).await;
        }
    }

    fn side_next(&mut self, n: u64) -> u64 {
        // xorshift64* on the side stream (seeded from the proptest-generated configuration)
        let mut x = self.side;
        x ^= x >> 12;
        x ^= x << 25;
        x ^= x >> 27;
        self.side = x;
        (x.wrapping_mul(0x2545F4914F6CDD1D) >> 33) % n.max(1)
    }

    /// Injection point of the non-interference pairs: same timing in both runs; only the second run
    /// sends something, and only something the reference predicate rejects (or a wrong-leader block).
    async fn injection_point(&mut self) {
        if self.inject == 0 || self.side_next(3) != 0 {
            return;
        }
        tokio::time::sleep(us(700)).await;
        let kind = self.side_next(13);
        let pidx = self.side_next(self.puppets.len() as u64) as usize;
        let p = self.puppets[pidx];
        let flip = |sig: &crypto::Signature, bit: usize| {
            let mut b = refvalid::sig_bytes(sig);
            b[(bit / 8) % 64] ^= 1 << (bit % 8);
            refvalid::sig_from_bytes(&b)
        };
        let bit = self.side_next(512) as usize;
        let tip = self.tip.clone();
        let cur = self.cur;
        let all_puppets = self.puppets.clone();
        // a valid QC for the tip, if the discipline allows one (computed in both runs so that the
        // certification state stays identical)
        let tip_qc = match &tip {
            Some(t) if self.certified.contains(t) => {
                let round = self.round_of(t);
                let signers = self.w.quorum_subset(&all_puppets).unwrap_or(all_puppets.clone());
                Some(self.w.qc_for(t.clone(), round, &signers))
            }
            _ => None,
        };
        let (name, msg): (&str, Option<ConsensusMessage>) = match kind {
            0 => {
                // timeout for a future round with a bad signature, carrying a valid newer QC
                let hq = tip_qc.clone().unwrap_or_else(QC::genesis);
                let mut t = self.w.timeout(p, cur + 1, hq);
                t.signature = flip(&t.signature, bit);
                ("timeout-bad-signature-with-valid-qc", Some(ConsensusMessage::Timeout(t)))
            }
            1 => {
                // TC for the current round with one corrupted entry
                let signers = self.w.quorum_subset(&all_puppets).unwrap_or(all_puppets.clone());
                let e: Vec<(usize, u64)> = signers.iter().map(|i| (*i, 0)).collect();
                let mut tc = self.w.tc(cur, &e);
                let k = self.side_next(tc.votes.len() as u64) as usize;
                tc.votes[k].1 = flip(&tc.votes[k].1, bit);
                ("tc-one-bad-signature", Some(ConsensusMessage::TC(tc)))
            }
            2 => {
                // TC for the current round reaching "quorum" by repeating one signer
                let one = all_puppets[0];
                let e: Vec<(usize, u64)> = (0..self.w.n).map(|_| (one, 0)).collect();
                ("tc-repeated-signer", Some(ConsensusMessage::TC(self.w.tc(cur, &e))))
            }
            3 => {
                // vote for the tip with a signature made for another round
                match &tip {
                    Some(t) => {
                        let r = self.round_of(t);
                        let mut v = self.w.vote_for(p, t.clone(), r);
                        v.signature = self.w.vote_for(p, t.clone(), r + 1).signature;
                        ("vote-signature-from-other-round", Some(ConsensusMessage::Vote(v)))
                    }
                    None => ("none", None),
                }
            }
            4 => {
                // proposal for the current round by its leader with a corrupted block signature
                let leader = self.w.leader(cur);
                if leader != self.sut {
                    let qc = tip_qc.clone().unwrap_or_else(QC::genesis);
                    if qc.round + 1 == cur || (cur == 1 && refvalid::is_genesis_qc(&qc)) {
                        let mut b = self.w.block(leader, cur, qc, None, vec![sha512_32(b"injected")]);
                        b.signature = flip(&b.signature, bit);
                        ("proposal-bad-signature", Some(ConsensusMessage::Propose(b)))
                    } else {
                        ("none", None)
                    }
                } else {
                    ("none", None)
                }
            }
            5 => {
                // valid-looking proposal for the current round by an authority that is not its leader
                let leader = self.w.leader(cur);
                let others: Vec<usize> = all_puppets.iter().copied().filter(|x| *x != leader).collect();
                let decoy = self.side_next(2) == 0;
                match (others.first(), tip_qc.clone()) {
                    (Some(a), Some(qc)) if qc.round + 1 == cur => {
                        // optionally with a valid but stale TC of a round whose successor the author led
                        let tc = if decoy {
                            (0..cur.saturating_sub(1)).rev().find(|tr| self.w.leader(tr + 1) == *a).map(|tr| {
                                let signers = self.w.quorum_subset(&all_puppets).unwrap_or(all_puppets.clone());
                                let e: Vec<(usize, u64)> = signers.iter().map(|i| (*i, 0)).collect();
                                self.w.tc(tr, &e)
                            })
                        } else {
                            None
                        };
                        let name = if tc.is_some() { "proposal-wrong-leader-with-stale-tc" } else { "proposal-wrong-leader" };
                        (name, Some(ConsensusMessage::Propose(self.w.block(*a, cur, qc, tc, Vec::new()))))
                    }
                    _ => ("none", None),
                }
            }
            6 => {
                // proposal by the right leader whose QC was trimmed below the quorum
                let leader = self.w.leader(cur);
                match tip_qc.clone() {
                    Some(mut qc) if leader != self.sut && qc.round + 1 == cur && qc.votes.len() > 1 => {
                        qc.votes.pop();
                        let signer_idx: Vec<usize> = qc.votes.iter().filter_map(|(k, _)| self.w.index_of(k)).collect();
                        if self.w.stake_of(&signer_idx) < self.w.quorum() {
                            ("proposal-qc-below-quorum", Some(ConsensusMessage::Propose(self.w.block(leader, cur, qc, None, Vec::new()))))
                        } else {
                            ("none", None)
                        }
                    }
                    _ => ("none", None),
                }
            }
            7 => {
                // correctly signed timeout for a future round whose high QC is forged (its sender alone signed it)
                let fake = self.w.qc_for(sha512_32(&cur.to_le_bytes()), cur + 2, &[p]);
                ("timeout-valid-signature-forged-qc", Some(ConsensusMessage::Timeout(self.w.timeout(p, cur + 3, fake))))
            }
            8 => {
                // a timeout in the node's OWN name (the node signs its own timeouts and may be tempted
                // to skip checking them): junk signature, vote-less QC for a far future round
                let me = self.w.pk(self.sut);
                let fake = QC { hash: sha512_32(b"own-name"), round: cur + 40, votes: Vec::new() };
                let mut t = self.w.timeout(p, cur, fake);
                t.author = me;
                ("timeout-in-own-name-forged", Some(ConsensusMessage::Timeout(t)))
            }
            9 => {
                // a vote in the node's own name for the tip, signed by somebody else
                let me = self.w.pk(self.sut);
                match &tip {
                    Some(t) => {
                        let mut v = self.w.vote_for(p, t.clone(), self.round_of(t));
                        v.author = me;
                        ("vote-in-own-name-forged", Some(ConsensusMessage::Vote(v)))
                    }
                    None => ("none", None),
                }
            }
            11 => {
                // a correctly signed timeout for the current round whose high QC (single signer) is of
                // the round just below: "stale" for round advancement, but still a candidate high QC
                // for a node that entered its round through a TC
                let fake = self.w.qc_for(sha512_32(&cur.to_le_bytes()), cur.saturating_sub(1).max(1), &[p]);
                ("timeout-valid-signature-forged-qc-of-previous-round", Some(ConsensusMessage::Timeout(self.w.timeout(p, cur, fake))))
            }
            10 => {
                // a timeout whose high QC claims the genesis hash under a later round, without votes
                let fake = QC { hash: Digest::default(), round: cur + 30, votes: Vec::new() };
                ("timeout-genesis-hash-qc-of-later-round", Some(ConsensusMessage::Timeout(self.w.timeout(p, cur, fake))))
            }
            _ => {
                // vote by a key that is not in the committee
                let outsider = World::new(&[1], 4242);
                match &tip {
                    Some(t) => ("vote-from-non-member", Some(ConsensusMessage::Vote(outsider.vote_for(0, t.clone(), self.round_of(t))))),
                    None => ("none", None),
                }
            }
        };
        if let Some(m) = msg {
            // sanity: only reference-invalid messages or wrong-leader proposals are injected
            let rejected = match &m {
                ConsensusMessage::Propose(b) => refvalid::ref_block(self.w, b).is_err() || self.w.index_of(&b.author) != Some(self.w.leader(b.round)),
                ConsensusMessage::Vote(v) => refvalid::ref_vote(self.w, v).is_err(),
                ConsensusMessage::Timeout(t) => refvalid::ref_timeout(self.w, t).is_err(),
                ConsensusMessage::TC(t) => refvalid::ref_tc(self.w, t).is_err(),
                ConsensusMessage::SyncRequest(..) => false,
            };
            if rejected {
                if self.inject == 2 {
                    let sut = self.sut;
                    let _ = self.inject_conns.consensus(p, sut, &m).await;
                }
                self.injected.push(name.to_string());
            }
        }
        tokio::time::sleep(us(300)).await;
    }

    fn observe_cert_rounds(&mut self, b: &Block) {
        self.cur = self.cur.max(b.qc.round + 1);
        if let Some(tc) = &b.tc {
            self.cur = self.cur.max(tc.round + 1);
        }
    }

    async fn deliver_block(&mut self, b: &Block, from: Option<usize>) {
        let d = self.register(b);
        let sender = from.unwrap_or_else(|| self.w.index_of(&b.author).filter(|i| *i != self.sut).unwrap_or(self.puppets[0]));
        self.send_to_sut(sender, &ConsensusMessage::Propose(b.clone())).await;
        if !self.delivered.contains(&d) {
            self.delivered.push(d);
        }
        self.observe_cert_rounds(b);
    }

    /// Payload for a crafted block: digests of batches that are delivered to the SUT's mempool
    /// before / after the proposal, only on request, or never.
    async fn make_payload(&mut self, heavy: bool) -> (Vec<Digest>, Vec<(Digest, u8)>) {
        let k = if heavy { self.t.weighted(&[1, 3, 2, 1]) } else { self.t.weighted(&[12, 2, 1]) };
        let mut payload = Vec::new();
        let mut later = Vec::new();
        for _ in 0..k {
            // sometimes reference a batch again that an earlier block referenced and that the node
            // still lacks (a re-proposed digest after a view change)
            let reusable: Vec<Digest> = self.unserved.iter().filter(|d| !payload.contains(*d)).cloned().collect();
            if !reusable.is_empty() && self.t.chance(1, 2) {
                let d = self.t.pick(&reusable).clone();
                payload.push(d);
                self.stat("missing-batch-referenced-again");
                continue;
            }
            self.batch_counter += 1;
            let ntx = 1 + self.t.below(3);
            let txs: Vec<Vec<u8>> = (0..ntx).map(|j| vec![self.batch_counter as u8, j as u8, 7, 7, 7]).collect();
            let bytes = bincode::serialize(&MempoolMessage::Batch(txs)).unwrap();
            let d = sha512_32(&bytes);
            self.batches.insert(d.clone(), bytes.clone());
            payload.push(d.clone());
            // 0: before the proposal, 1: shortly after, 2: only on request, 3: never
            let mode = self.t.weighted(&[4, 2, 2, 2]) as u8;
            match mode {
                0 => {
                    let from = *self.t.pick(&self.puppets.clone());
                    let sut = self.sut;
                    let _ = self.conns.mempool(from, sut, bytes).await;
                    self.stat("batch-before");
                }
                m => {
                    if m >= 2 {
                        self.unserved.push(d.clone());
                    }
                    later.push((d, m));
                    self.stat(&format!("batch-mode-{}", m));
                }
            }
        }
        if !payload.is_empty() {
            // let the batches land in the store before the proposal (when sent before)
            tokio::time::sleep(ms(3)).await;
        }
        (payload, later)
    }

    async fn deliver_late_batches(&mut self, later: Vec<(Digest, u8)>) {
        for (d, mode) in later {
            if mode == 1 {
                let delay = self.t.range(1, 30);
                tokio::time::sleep(ms(delay)).await;
                let from = *self.t.pick(&self.puppets.clone());
                let bytes = self.batches[&d].clone();
                let sut = self.sut;
                let _ = self.conns.mempool(from, sut, bytes).await;
            }
        }
    }

    /// Benign progress: the leader of the current round proposes on the tip.
    async fn advance(&mut self, heavy_payload: bool) {
        self.absorb();
        let round = self.cur;
        if self.leader_is_sut(round) {
            self.help_sut_lead(round).await;
            return;
        }
        let parent = self.sound_tip();
        let parent_round = self.round_of(&parent);
        if round <= parent_round {
            self.cur = parent_round + 1;
            return;
        }
        let qc = self.qc_of(&parent);
        let tc = if parent_round + 1 == round {
            None
        } else {
            // a gap: needs a TC for round-1; make a safe one unless one is pending
            match self.pending_tc.take() {
                Some(tc) if tc.round + 1 == round && tc.votes.iter().all(|(_, _, hr)| *hr <= parent_round) => Some(tc),
                _ => {
                    let signers = self.puppet_quorum();
                    let entries: Vec<(usize, u64)> = signers.iter().map(|i| (*i, self.t.range(0, parent_round))).collect();
                    Some(self.w.tc(round - 1, &entries))
                }
            }
        };
        let (payload, later) = self.make_payload(heavy_payload).await;
        let b = self.w.block(self.w.leader(round), round, qc, tc, payload.clone());
        self.note(json!({"step": "propose", "round": round, "parent_round": parent_round, "tc": b.tc.is_some(), "payload": payload.len()}));
        self.stat("propose");
        self.deliver_block(&b, None).await;
        self.tip = Some(b.digest());
        self.deliver_late_batches(later).await;
    }

    /// The SUT leads `round`: give it what it needs (votes for the tip, or timeouts / a TC) to propose.
    async fn help_sut_lead(&mut self, round: u64) {
        let tip = if self.tip.is_none() { genesis_digest() } else { self.sound_tip() };
        let tip_round = self.round_of(&tip);
        if round == 1 && self.tip.is_none() {
            // it proposes on its own at boot
            self.note(json!({"step": "wait-sut-boot-proposal"}));
            self.settle().await;
            self.cur = self.cur.max(1);
            if self.tip.is_none() {
                // nothing came: move on through a timeout
                self.timeout_round(round, true).await;
            } else {
                self.cur = 2;
            }
            return;
        }
        if tip_round + 1 == round && tip != genesis_digest() {
            // votes for the tip go to the SUT (next leader); order, duplicates, conflicts per tape
            let mut voters = self.puppets.clone();
            for i in (1..voters.len()).rev() {
                let j = self.t.below(i + 1);
                voters.swap(i, j);
            }
            let mut sent = Vec::new();
            let noisy = self.t.chance(1, 3);
            // split round (an equivocating leader made the voters disagree): every puppet votes once,
            // some for the tip and the others for another block of the round, and neither block
            // reaches the quorum - no certificate may come out of the mixed votes
            let split = !noisy && self.t.chance(1, 6);
            if split {
                let q = self.w.quorum();
                let mine = self.w.stake_of(&[self.sut]);
                let other = sha512_32(&[tip_round as u8, 0x5B, self.t.below(200) as u8]);
                let mut for_tip: Vec<usize> = Vec::new();
                let mut for_other: Vec<usize> = Vec::new();
                for v in voters.clone() {
                    let mut with_v = for_tip.clone();
                    with_v.push(v);
                    if self.w.stake_of(&with_v) + mine < q {
                        for_tip.push(v);
                    } else {
                        for_other.push(v);
                    }
                }
                if !for_other.is_empty() && self.w.stake_of(&for_other) < q {
                    // interleave the two camps in the shuffled order
                    for v in voters.clone() {
                        let h = if for_tip.contains(&v) { tip.clone() } else { other.clone() };
                        let vote = self.w.vote_for(v, h, tip_round);
                        self.send_to_sut(v, &ConsensusMessage::Vote(vote)).await;
                        if self.t.chance(1, 6) {
                            tokio::time::sleep(ms(2)).await;
                        }
                    }
                    self.note(json!({"step": "split-votes-to-sut", "for_round": tip_round, "for_tip": for_tip, "for_other": for_other}));
                    self.stat("split-votes-to-sut");
                    self.settle().await;
                    self.timeout_round(round, true).await;
                    return;
                }
            }
            self.mark_certified(&tip);
            for v in voters.clone() {
                if noisy && self.t.chance(1, 4) {
                    // conflicting vote of this puppet for another (unknown) block of the round
                    let other = sha512_32(&[v as u8, 0xCF]);
                    let vote = self.w.vote_for(v, other, tip_round);
                    self.send_to_sut(v, &ConsensusMessage::Vote(vote)).await;
                    self.stat("conflicting-vote");
                }
                let vote = self.w.vote_for(v, tip.clone(), tip_round);
                self.send_to_sut(v, &ConsensusMessage::Vote(vote.clone())).await;
                sent.push(v);
                if noisy && self.t.chance(1, 4) {
                    self.send_to_sut(v, &ConsensusMessage::Vote(vote)).await;
                    self.stat("duplicate-vote");
                }
                if self.t.chance(1, 6) {
                    tokio::time::sleep(ms(2)).await;
                }
                if self.t.chance(1, 12) {
                    break; // stop early: possibly below quorum
                }
            }
            self.note(json!({"step": "votes-to-sut", "for_round": tip_round, "voters": sent, "noisy": noisy}));
            self.stat("votes-to-sut");
            self.settle().await;
            if self.round_of(&self.tip.clone().unwrap_or_else(genesis_digest)) >= round {
                self.cur = round + 1;
            } else if self.t.chance(2, 3) {
                self.timeout_round(round, true).await;
            }
        } else {
            // the SUT needs a TC for round-1 to lead this round
            self.timeout_round(round - 1, true).await;
            self.settle().await;
            if self.round_of(&self.tip.clone().unwrap_or_else(genesis_digest)) >= round {
                self.cur = round + 1;
            } else {
                self.timeout_round(round, true).await;
            }
        }
    }

    /// Puppets time out of `round`: send timeouts (and/or a TC) to the SUT.
    async fn timeout_round(&mut self, round: u64, benign: bool) {
        let tip = if self.tip.is_none() { genesis_digest() } else { self.sound_tip() };
        let tip_round = self.round_of(&tip);
        let signers = self.puppet_quorum();
        let as_tc = !benign && self.t.chance(1, 3);
        let mut entries = Vec::new();
        let mut timeouts = Vec::new();
        for i in &signers {
            // high QC: the tip's QC (benign) or an older / genesis one
            let (hq, hr) = if benign || self.t.chance(2, 3) || tip == genesis_digest() {
                if tip == genesis_digest() {
                    (QC::genesis(), 0)
                } else {
                    (self.qc_of(&tip), tip_round)
                }
            } else {
                (QC::genesis(), 0)
            };
            entries.push((*i, hr));
            timeouts.push(self.w.timeout(*i, round, hq));
        }
        if !as_tc {
            let mut k = 0;
            for (i, t) in signers.iter().zip(timeouts.iter()) {
                self.send_to_sut(*i, &ConsensusMessage::Timeout(t.clone())).await;
                k += 1;
                if !benign && self.t.chance(1, 8) {
                    self.send_to_sut(*i, &ConsensusMessage::Timeout(t.clone())).await;
                    self.stat("duplicate-timeout");
                }
                if !benign && self.t.chance(1, 10) {
                    break;
                }
            }
            self.note(json!({"step": "timeouts-to-sut", "round": round, "count": k, "of": signers.len()}));
            if k == signers.len() {
                self.pending_tc = Some(self.w.tc(round, &entries));
                self.cur = self.cur.max(round + 1);
            }
            self.stat("timeouts-to-sut");
        } else {
            let tc = self.w.tc(round, &entries);
            let from = signers[0];
            self.send_to_sut(from, &ConsensusMessage::TC(tc.clone())).await;
            self.note(json!({"step": "tc-to-sut", "round": round}));
            self.pending_tc = Some(tc);
            self.cur = self.cur.max(round + 1);
            self.stat("tc-to-sut");
        }
    }

    /// A second proposal for the tip's round by the same leader (different payload).
    async fn equivocate(&mut self) {
        let tip = match self.tip.clone() {
            Some(t) => t,
            None => return self.advance(false).await,
        };
        let b = self.blocks[&tip].clone();
        if b.author == self.w.pk(self.sut) {
            return self.advance(false).await;
        }
        let author = self.w.index_of(&b.author).unwrap();
        let extra = sha512_32(&[self.t.below(200) as u8, 0xE9]);
        // the payload digest is unknown to the SUT unless we provide the batch: keep it empty or provided
        let payload = if self.t.chance(1, 2) {
            Vec::new()
        } else {
            let bytes = bincode::serialize(&MempoolMessage::Batch(vec![extra.0.to_vec()])).unwrap();
            let d = sha512_32(&bytes);
            self.batches.insert(d.clone(), bytes.clone());
            let sut = self.sut;
            let _ = self.conns.mempool(author, sut, bytes).await;
            tokio::time::sleep(ms(3)).await;
            vec![d]
        };
        if payload == b.payload {
            return;
        }
        let b2 = self.w.block(author, b.round, b.qc.clone(), b.tc.clone(), payload);
        self.note(json!({"step": "equivocate", "round": b.round}));
        self.stat("equivocate");
        self.deliver_block(&b2, None).await;
    }

    /// A block on an older parent (fork) or with a round gap, with a safe / unsafe / absent TC.
    async fn fork_or_gap(&mut self) {
        self.absorb();
        if self.delivered.is_empty() {
            return self.advance(false).await;
        }
        // parent: tip (gap) or an older delivered block or genesis (fork); the embedded QC certifies
        // the parent, so it must be certifiable under the discipline
        let mut parent = match self.t.weighted(&[3, 4, 1]) {
            0 => self.sound_tip(),
            1 => {
                let k = self.delivered.len();
                let back = 1 + self.t.below(k.min(4));
                self.delivered[k - back.min(k)].clone()
            }
            _ => genesis_digest(),
        };
        if !self.can_certify(&parent) {
            parent = self.best_parent();
        }
        let parent_round = self.round_of(&parent);
        let mut round = self.cur.max(parent_round + 1) + self.t.weighted(&[4, 2, 1, 1]) as u64;
        let mut guard = 0;
        while self.leader_is_sut(round) && guard < 8 {
            round += 1;
            guard += 1;
        }
        if round <= parent_round {
            return;
        }
        let qc = self.qc_of(&parent);
        let gap = parent_round + 1 != round;
        let tc_mode = if gap { self.t.weighted(&[3, 2, 2, 2]) } else { 2 };
        let signers = self.puppet_quorum();
        let tc = match tc_mode {
            0 => {
                // safe TC: every reported high-QC round <= parent round
                let e: Vec<(usize, u64)> = signers.iter().map(|i| (*i, self.t.range(0, parent_round))).collect();
                Some(self.w.tc(round - 1, &e))
            }
            1 => {
                // unsafe TC: someone reports a higher QC round than the block extends
                let mut e: Vec<(usize, u64)> = signers.iter().map(|i| (*i, self.t.range(0, parent_round))).collect();
                let k = self.t.below(e.len());
                e[k].1 = parent_round + 1 + self.t.below(3) as u64;
                Some(self.w.tc(round - 1, &e))
            }
            3 => {
                // forged TC: looks safe (every reported round <= parent round) but is not signed by a
                // quorum - one genuine signature, the others junk; only a node that skips verification
                // of the embedded TC (for instance because it already is in this round) would vote
                let one = signers[0];
                let votes = signers
                    .iter()
                    .map(|i| {
                        let hr = self.t.range(0, parent_round);
                        let hq = QC { hash: Digest::default(), round: hr, votes: Vec::new() };
                        (self.w.pk(*i), self.w.timeout(one, round - 1, hq).signature, hr)
                    })
                    .collect();
                Some(TC { round: round - 1, votes })
            }
            _ => None,
        };
        let b = self.w.block(self.w.leader(round), round, qc, tc, Vec::new());
        if tc_mode == 3 {
            self.mark_forged(&b);
        }
        let tc_name = ["safe", "unsafe", "none", "forged"][tc_mode];
        self.note(json!({"step": "fork-or-gap", "round": round, "parent_round": parent_round, "tc": tc_name}));
        self.stat(&format!("fork-gap-tc-{}", tc_name));
        self.deliver_block(&b, None).await;
        // adopt as the new tip when it is the highest block and may be certified later
        if round > self.round_of(&self.tip.clone().unwrap_or_else(genesis_digest)) && self.can_certify(&b.digest()) && self.t.chance(2, 3) {
            self.tip = Some(b.digest());
        }
    }

    /// Craft a small chain on the tip but deliver the newest block first (sync path).
    async fn children_first(&mut self) {
        self.absorb();
        let depth = 1 + self.t.below(3);
        let mut parent = self.sound_tip();
        let mut chain = Vec::new();
        let mut round = self.cur.max(self.round_of(&parent) + 1);
        for _ in 0..=depth {
            let mut guard = 0;
            while self.leader_is_sut(round) && guard < 8 {
                round += 1;
                guard += 1;
            }
            let parent_round = self.round_of(&parent);
            let qc = self.qc_of(&parent);
            let tc = if parent_round + 1 == round {
                None
            } else {
                let signers = self.puppet_quorum();
                let e: Vec<(usize, u64)> = signers.iter().map(|i| (*i, self.t.range(0, parent_round))).collect();
                Some(self.w.tc(round - 1, &e))
            };
            let b = self.w.block(self.w.leader(round), round, qc, tc, Vec::new());
            parent = self.register(&b);
            chain.push(b);
            round += 1 + self.t.weighted(&[5, 1, 1]) as u64;
        }
        let newest = chain.last().unwrap().clone();
        self.note(json!({"step": "children-first", "rounds": chain.iter().map(|b| b.round).collect::<Vec<_>>()}));
        self.stat("children-first");
        for b in &chain[..chain.len() - 1] {
            self.withheld.push(b.digest());
        }
        self.deliver_block(&newest, None).await;
        self.tip = Some(newest.digest());
        // serve (or not) the sync requests that follow
        let rounds = 1 + chain.len();
        for _ in 0..rounds {
            self.settle().await;
            self.serve_requests(false).await;
        }
    }

    /// Answer outstanding SyncRequest / BatchRequest frames (right block, late, via another puppet, never).
    async fn serve_requests(&mut self, force: bool) {
        let (syncs, breqs): (Vec<(Digest, PublicKey, usize)>, Vec<(Vec<Digest>, PublicKey, usize)>) = {
            let ib = self.inbox.lock().unwrap();
            (
                ib.sync_requests.iter().skip(self.served_sync).cloned().collect(),
                ib.batch_requests.iter().skip(self.served_batch).cloned().collect(),
            )
        };
        self.served_sync += syncs.len();
        self.served_batch += breqs.len();
        // canonical order: the node iterates hash maps when it (re)broadcasts requests, so their
        // arrival order is not a function of the seed
        let mut syncs = syncs;
        syncs.sort_by_key(|(d, _, p)| (self.round_of(d), d.0.to_vec(), *p));
        let mut breqs = breqs;
        breqs.sort_by_key(|(ds, _, p)| (ds.iter().map(|d| d.0.to_vec()).collect::<Vec<_>>(), *p));
        for (d, _who, puppet) in syncs {
            let mode = if force { 0 } else { self.t.weighted(&[8, 1, 1]) };
            match (mode, self.blocks.get(&d).cloned()) {
                (0, Some(b)) => {
                    self.send_to_sut(puppet, &ConsensusMessage::Propose(b)).await;
                    if !self.delivered.contains(&d) {
                        self.delivered.push(d.clone());
                    }
                    self.stat("sync-served");
                }
                (1, Some(b)) => {
                    // late and from another puppet
                    tokio::time::sleep(ms(self.t.range(5, 60))).await;
                    let other = *self.t.pick(&self.puppets.clone());
                    self.send_to_sut(other, &ConsensusMessage::Propose(b)).await;
                    if !self.delivered.contains(&d) {
                        self.delivered.push(d.clone());
                    }
                    self.stat("sync-served-late");
                }
                _ => self.stat("sync-ignored"),
            }
        }
        for (ds, _who, puppet) in breqs {
            for d in ds {
                let mode = if force { 0 } else { self.t.weighted(&[8, 1]) };
                if let (0, Some(bytes)) = (mode, self.batches.get(&d).cloned()) {
                    let sut = self.sut;
                    let _ = self.conns.mempool(puppet, sut, bytes).await;
                    self.unserved.retain(|x| *x != d);
                    self.stat("batch-served");
                } else {
                    self.stat("batch-request-ignored");
                }
            }
        }
    }

    /// Perfectly valid block for the current round, except that its author is not the leader.
    async fn wrong_leader(&mut self) {
        self.absorb();
        let round = self.cur;
        let leader = self.w.leader(round);
        let candidates: Vec<usize> = self.puppets.iter().copied().filter(|p| *p != leader).collect();
        if candidates.is_empty() {
            return;
        }
        let author = *self.t.pick(&candidates);
        let parent = self.sound_tip();
        let parent_round = self.round_of(&parent);
        if round <= parent_round {
            return;
        }
        let qc = self.qc_of(&parent);
        let mut tc = if parent_round + 1 == round {
            None
        } else {
            let signers = self.puppet_quorum();
            let e: Vec<(usize, u64)> = signers.iter().map(|i| (*i, parent_round)).collect();
            Some(self.w.tc(round - 1, &e))
        };
        // decoy: a valid but STALE timeout certificate of an earlier round t whose successor t+1 the
        // author did lead - a leader check that trusts the attached TC's round would let it pass
        let mut decoy = None;
        if tc.is_none() && self.t.chance(1, 2) {
            if let Some(tr) = (0..round.saturating_sub(1)).rev().find(|tr| self.w.leader(tr + 1) == author) {
                let signers = self.puppet_quorum();
                let e: Vec<(usize, u64)> = signers.iter().map(|i| (*i, parent_round.min(tr))).collect();
                tc = Some(self.w.tc(tr, &e));
                decoy = Some(tr);
            }
        }
        let b = self.w.block(author, round, qc, tc, Vec::new());
        self.register(&b);
        self.note(json!({"step": "wrong-leader-proposal", "round": round, "stale_tc_of_round": decoy}));
        self.stat("wrong-leader");
        self.send_to_sut(author, &ConsensusMessage::Propose(b)).await;
    }

    /// A proposal that names the round's leader as author but is signed by somebody else, with a valid
    /// QC and ONE payload digest whose batch the node lacks; the batch arrives a little later. A node
    /// that looks at the payload before it verifies the block parks it and resumes it unverified.
    async fn unsigned_proposal_with_late_batch(&mut self) {
        self.absorb();
        let round = self.cur;
        let author = self.w.leader(round);
        if !self.puppets.contains(&author) {
            return self.advance(false).await;
        }
        let parent = if self.tip.is_none() { genesis_digest() } else { self.sound_tip() };
        let parent_round = self.round_of(&parent);
        if parent_round + 1 != round && !(parent == genesis_digest() && round == 1) {
            return self.advance(false).await;
        }
        let qc = self.qc_of(&parent);
        self.batch_counter += 1;
        let txs: Vec<Vec<u8>> = vec![vec![self.batch_counter as u8, 0xBA, 0xD5, 1, 9]];
        let bytes = bincode::serialize(&MempoolMessage::Batch(txs)).unwrap();
        let d = sha512_32(&bytes);
        self.batches.insert(d.clone(), bytes.clone());
        let signer = *self.puppets.iter().find(|p| **p != author).unwrap_or(&author);
        let mut b = self.w.block(author, round, qc, None, vec![d.clone()]);
        // somebody else's signature over the same digest (or a flipped bit when there is nobody else)
        if signer != author {
            b.signature = self.w.sign(signer, &refvalid::block_digest(&b));
        } else {
            let mut raw = refvalid::sig_bytes(&b.signature);
            raw[5] ^= 0x10;
            b.signature = refvalid::sig_from_bytes(&raw);
        }
        self.mark_forged(&b);
        self.register(&b);
        self.note(json!({"step": "unsigned-proposal-with-late-batch", "round": round}));
        self.stat("unsigned-proposal-with-late-batch");
        self.send_to_sut(author, &ConsensusMessage::Propose(b)).await;
        let delay = self.t.range(2, 20);
        tokio::time::sleep(ms(delay)).await;
        let from = *self.t.pick(&self.puppets.clone());
        let sut = self.sut;
        let _ = self.conns.mempool(from, sut, bytes).await;
    }

    /// A proposal by the legitimate leader of its round whose QC is forged: it names a real block the
    /// node holds (mostly the tip, whose certificate nobody has formed yet) but no quorum backs it -
    /// no votes at all under round 0 ("genesis") or under the block's round, a single signer, one
    /// signer repeated up to the quorum weight, or genuine signatures made for another round. Everything
    /// else about the proposal is in order (leader, signature, a valid TC when rounds are skipped), so
    /// only certificate verification stands between it and the commit / vote rules. A correct node
    /// drops it; nothing in the generator's picture of the node changes.
    async fn forged_cert_proposal(&mut self) {
        self.absorb();
        if self.delivered.is_empty() {
            return self.advance(false).await;
        }
        let target = if self.t.chance(3, 4) {
            self.tip.clone().unwrap_or_else(|| self.delivered[0].clone())
        } else {
            self.t.pick(&self.delivered.clone()).clone()
        };
        let tb = match self.blocks.get(&target) {
            Some(b) => b.clone(),
            None => return,
        };
        let mut round = if self.t.chance(1, 2) { tb.round + 1 } else { self.cur.max(tb.round + 1) };
        let mut guard = 0;
        while !self.puppets.contains(&self.w.leader(round)) && guard < 8 {
            round += 1;
            guard += 1;
        }
        let author = self.w.leader(round);
        if !self.puppets.contains(&author) {
            return;
        }
        let mut kind = self.t.below(6);
        if kind == 2 && self.w.stake_of(&[author]) >= self.w.quorum() {
            kind = 1;
        }
        let qc = match kind {
            5 => QC { hash: Digest::default(), round: round - 1, votes: Vec::new() },
            0 => QC { hash: target.clone(), round: 0, votes: Vec::new() },
            1 => QC { hash: target.clone(), round: tb.round, votes: Vec::new() },
            2 => self.w.qc_for(target.clone(), tb.round, &[author]),
            3 => {
                let mut signers = vec![author];
                while self.w.stake_of(&[author]) * (signers.len() as u64) < self.w.quorum() && signers.len() < 64 {
                    signers.push(author);
                }
                self.w.qc_for(target.clone(), tb.round, &signers)
            }
            _ => {
                let signers = self.puppet_quorum();
                let mut q = self.w.qc_for(target.clone(), tb.round + 1, &signers);
                q.round = tb.round;
                q
            }
        };
        let tc = if qc.round + 1 == round {
            None
        } else {
            let signers = self.puppet_quorum();
            let e: Vec<(usize, u64)> = signers.iter().map(|i| (*i, qc.round.min(tb.round))).collect();
            Some(self.w.tc(round - 1, &e))
        };
        let b = self.w.block(author, round, qc, tc, Vec::new());
        self.mark_forged(&b);
        self.register(&b);
        let name = ["round-0-no-votes", "no-votes", "single-signer", "repeated-signer", "signatures-for-another-round", "genesis-hash-under-previous-round"][kind];
        self.note(json!({"step": "forged-certificate-proposal", "round": round, "names_block_of_round": tb.round, "forgery": name}));
        self.stat("forged-certificate-proposal");
        self.send_to_sut(author, &ConsensusMessage::Propose(b)).await;
    }

    /// Votes / timeouts / TCs for past and future rounds.
    async fn stale_or_future(&mut self) {
        self.absorb();
        let p = *self.t.pick(&self.puppets.clone());
        let delta = self.t.range(1, 4);
        let future = self.t.chance(1, 2);
        let round = if future { self.cur + delta } else { self.cur.saturating_sub(delta).max(1) };
        match self.t.below(7) {
            5 => {
                // a timeout in the node's own name, not signed by it, with a vote-less QC of a far round
                let me = self.w.pk(self.sut);
                let fake = QC { hash: sha512_32(b"own-name"), round: self.cur + 40, votes: Vec::new() };
                let mut t = self.w.timeout(p, self.cur.max(round), fake);
                t.author = me;
                self.send_to_sut(p, &ConsensusMessage::Timeout(t)).await;
                self.stat("timeout-in-own-name-forged");
            }
            6 => {
                // a correctly signed timeout whose high QC claims the genesis hash under a later round
                let fake = QC { hash: Digest::default(), round: self.cur + 30, votes: Vec::new() };
                let t = self.w.timeout(p, self.cur.max(round), fake);
                self.send_to_sut(p, &ConsensusMessage::Timeout(t)).await;
                self.stat("timeout-genesis-hash-qc-of-later-round");
            }
            3 => {
                // a forged TC message (one genuine signature, the rest junk): must not move the node
                let signers = self.puppet_quorum();
                let votes = signers
                    .iter()
                    .map(|i| {
                        let hq = QC { hash: Digest::default(), round: 0, votes: Vec::new() };
                        (self.w.pk(*i), self.w.timeout(p, round, hq).signature, 0u64)
                    })
                    .collect();
                self.send_to_sut(p, &ConsensusMessage::TC(TC { round, votes })).await;
                self.stat("forged-tc-message");
            }
            4 => {
                // a correctly signed timeout whose high QC is forged (signed by its sender alone)
                let fake = self.w.qc_for(sha512_32(&round.to_le_bytes()), round.saturating_sub(1).max(1), &[p]);
                let t = self.w.timeout(p, round, fake);
                self.send_to_sut(p, &ConsensusMessage::Timeout(t)).await;
                self.stat("timeout-with-forged-qc");
            }
            0 => {
                // a vote naming the tip under a round that is not the tip's: no honest authority signs
                // such a vote, so it comes from the one Byzantine puppet only (votes of several puppets
                // for one (block, wrong round) pair would add up to a "certificate" that needs honest
                // signers to exist); without such a puppet, an ordinary late vote for an old block
                let d = self.tip.clone().unwrap_or_else(|| sha512_32(b"none"));
                match self.byzantine_puppet() {
                    Some(b) => {
                        let v = self.w.vote_for(b, d, round);
                        self.send_to_sut(b, &ConsensusMessage::Vote(v)).await;
                    }
                    None => {
                        // (a late vote for the oldest block the node processed, under its own round)
                        let old = self.delivered.first().cloned().unwrap_or(d);
                        let r = self.blocks.get(&old).map_or(1, |b| b.round);
                        let v = self.w.vote_for(p, old, r);
                        self.send_to_sut(p, &ConsensusMessage::Vote(v)).await;
                    }
                }
            }
            1 => {
                let tip = if self.tip.is_none() { genesis_digest() } else { self.sound_tip() };
                let hq = self.qc_of(&tip);
                // a timeout's high QC must be older than its round to be meaningful; anything goes on the wire
                let t = self.w.timeout(p, round, hq);
                if future {
                    // a future-round timeout carries its QC: the SUT may legitimately advance on it
                    self.cur = self.cur.max(t.high_qc.round + 1);
                }
                self.send_to_sut(p, &ConsensusMessage::Timeout(t)).await;
            }
            _ => {
                let signers = self.puppet_quorum();
                let e: Vec<(usize, u64)> = signers.iter().map(|i| (*i, 0)).collect();
                let tc = self.w.tc(round, &e);
                if future {
                    self.cur = self.cur.max(round + 1);
                    self.pending_tc = Some(tc.clone());
                }
                self.send_to_sut(p, &ConsensusMessage::TC(tc)).await;
            }
        }
        self.note(json!({"step": "stale-or-future", "round": round, "future": future}));
        self.stat(if future { "future-round-message" } else { "stale-round-message" });
    }

    /// Ask the SUT for a block it processed (store round trip; the reply lands in the inbox).
    async fn sync_probe(&mut self) {
        if self.delivered.is_empty() {
            return;
        }
        let k = self.t.below(self.delivered.len());
        let d = self.delivered[k].clone();
        let p = *self.t.pick(&self.puppets.clone());
        let msg = ConsensusMessage::SyncRequest(d.clone(), self.w.pk(p));
        self.send_to_sut(p, &msg).await;
        self.note(json!({"step": "sync-probe", "round": self.round_of(&d)}));
        self.stat("sync-probe");
    }


    /// One piece of hostile input on one of the node's three ports.
    async fn hostile_input(&mut self) {
        use crate::world::{addr, CONSENSUS_PORT, MEMPOOL_PORT, TX_PORT};
        use tokio::io::AsyncWriteExt;
        let sut = self.sut;
        let p = *self.t.pick(&self.puppets.clone());
        let from = p as u32 + 1;
        let kind = self.t.below(15);
        let port_choice = self.t.below(3);
        let base = [CONSENSUS_PORT, MEMPOOL_PORT, TX_PORT][port_choice];
        let port = base + sut as u16;
        let mut decoded = false;
        let name: String;
        match kind {
            0 | 1 | 2 => {
                // raw bytes: garbage, lying / zero / oversized length prefixes, truncated frames
                let mut bytes = Vec::new();
                let sub = self.t.below(6);
                match sub {
                    0 => {
                        let k = 1 + self.t_len(60);
                        bytes = self.t.bytes(k);
                    }
                    1 => {
                        bytes.extend(0u32.to_be_bytes());
                        bytes.extend(0u32.to_be_bytes());
                    }
                    2 => {
                        bytes.extend((9u32 << 20).to_be_bytes()); // above the 8 MiB frame limit
                        bytes.extend(self.t.bytes(16));
                    }
                    3 => {
                        bytes.extend(1000u32.to_be_bytes()); // announces more than it sends
                        bytes.extend(self.t.bytes(10));
                    }
                    4 => {
                        bytes.extend(u32::MAX.to_be_bytes());
                        bytes.extend(self.t.bytes(4));
                    }
                    _ => {
                        // a valid frame followed by half a frame
                        let m = bincode::serialize(&ConsensusMessage::SyncRequest(sha512_32(b"nothing"), self.w.pk(p))).unwrap();
                        bytes.extend((m.len() as u32).to_be_bytes());
                        bytes.extend(&m);
                        bytes.extend((m.len() as u32).to_be_bytes());
                        bytes.extend(&m[..m.len() / 2]);
                    }
                }
                simnet::set_current_node(from);
                let s = network::simnet::TcpStream::connect_raw(addr(port)).await;
                simnet::set_current_node(0);
                if let Ok(mut s) = s {
                    simnet::set_current_node(from);
                    let _ = s.write_all(&bytes).await;
                    simnet::set_current_node(0);
                    if self.t.chance(1, 2) {
                        tokio::time::sleep(ms(3)).await;
                    }
                    drop(s);
                }
                name = format!("raw-{}-port{}", sub, port_choice);
            }
            3 | 4 | 5 => {
                // edited valid consensus message (any variant), to the consensus or the mempool port
                let msgs = crate::props::c15::valid_consensus_messages(self.w, self.t);
                let i = self.t.below(msgs.len());
                let mut bytes = bincode::serialize(&msgs[i]).unwrap();
                let nedits = self.t.below(3);
                for _ in 0..nedits {
                    crate::props::c15::edit_bytes(self.t, &mut bytes);
                }
                decoded = bincode::deserialize::<ConsensusMessage>(&bytes).is_ok();
                let dst = if self.t.chance(1, 5) { MEMPOOL_PORT } else { CONSENSUS_PORT } + sut as u16;
                let _ = self.conns.send(from, dst, bytes).await;
                name = format!("edited-consensus-msg-{}{}", i, if dst / 100 == 92 { "-to-mempool-port" } else { "" });
            }
            6 => {
                // mempool messages, edited, also to the consensus port
                let ntx = self.t.below(4);
                let batch: Vec<Vec<u8>> = (0..ntx).map(|j| vec![j as u8; 1 + j]).collect();
                let mut bytes = if self.t.chance(1, 2) {
                    bincode::serialize(&MempoolMessage::Batch(batch)).unwrap()
                } else {
                    let ds: Vec<Digest> = (0..ntx).map(|j| sha512_32(&[j as u8])).collect();
                    bincode::serialize(&MempoolMessage::BatchRequest(ds, self.w.pk(p))).unwrap()
                };
                let nedits = self.t.below(3);
                for _ in 0..nedits {
                    crate::props::c15::edit_bytes(self.t, &mut bytes);
                }
                decoded = bincode::deserialize::<MempoolMessage>(&bytes).is_ok();
                let dst = if self.t.chance(1, 4) { CONSENSUS_PORT } else { MEMPOOL_PORT } + sut as u16;
                let _ = self.conns.send(from, dst, bytes).await;
                name = format!("edited-mempool-msg{}", if dst / 100 == 90 { "-to-consensus-port" } else { "" });
            }
            7 => {
                // well-formed, correctly signed, absurd fields. They all come from ONE member whose
                // stake is at most f: honest authorities never sign such content, so with at most f
                // Byzantine stake no quorum of signatures over an absurd round can exist (several
                // puppets signing timeouts for round 2^64-1 would let the node assemble a TC for that
                // round, which is outside the fault model of every listed property)
                let r = *self.t.pick(&[0u64, u64::MAX, u64::MAX - 1, 1 << 63]);
                let p = match self.byzantine_puppet() {
                    Some(b) => b,
                    None => p,
                };
                let lone = self.byzantine_puppet().is_some();
                let m = match self.t.below(4) {
                    0 if lone => ConsensusMessage::Vote(self.w.vote_for(p, sha512_32(b"absurd"), r)),
                    1 if lone => ConsensusMessage::Timeout(self.w.timeout(p, r, QC::genesis())),
                    0 | 1 => ConsensusMessage::Propose(self.w.block(p, r, QC::genesis(), None, Vec::new())),
                    2 => {
                        let author = if self.w.leader(r) != sut { self.w.leader(r) } else { p };
                        ConsensusMessage::Propose(self.w.block(author, r, QC::genesis(), None, Vec::new()))
                    }
                    _ => {
                        let author = if self.w.leader(r) != sut { self.w.leader(r) } else { p };
                        let payload: Vec<Digest> = (0..self.t.below(2000)).map(|i| sha512_32(&(i as u32).to_le_bytes())).collect();
                        ConsensusMessage::Propose(self.w.block(author, r, QC::genesis(), None, payload))
                    }
                };
                decoded = true;
                self.send_to_sut(p, &m).await;
                name = format!("absurd-round-{}", if r == 0 { "0" } else { "huge" });
            }
            8 => {
                // keys of wrong length inside otherwise well-formed messages (hand-encoded bincode)
                let klen = *self.t.pick(&[0usize, 1, 3, 31, 33, 64]);
                let key_text = base64::encode(self.t.bytes(klen));
                let mut raw = Vec::new();
                match self.t.below(2) {
                    0 => {
                        raw.extend(1u32.to_le_bytes()); // Vote
                        raw.extend([7u8; 32]);
                        raw.extend(self.cur.to_le_bytes());
                        raw.extend((key_text.len() as u64).to_le_bytes());
                        raw.extend(key_text.as_bytes());
                        raw.extend([0u8; 64]);
                    }
                    _ => {
                        raw.extend(4u32.to_le_bytes()); // SyncRequest
                        raw.extend([7u8; 32]);
                        raw.extend((key_text.len() as u64).to_le_bytes());
                        raw.extend(key_text.as_bytes());
                    }
                }
                let _ = self.conns.send(from, CONSENSUS_PORT + sut as u16, raw).await;
                name = format!("key-of-{}-bytes", klen);
            }
            9 => {
                // SyncRequest for the digest of a stored batch (shared store)
                let d = match self.batches.keys().next().cloned() {
                    Some(d) => d,
                    None => {
                        let bytes = bincode::serialize(&MempoolMessage::Batch(vec![vec![9, 9, 9]])).unwrap();
                        let d = sha512_32(&bytes);
                        self.batches.insert(d.clone(), bytes.clone());
                        let _ = self.conns.mempool(p, sut, bytes).await;
                        tokio::time::sleep(ms(4)).await;
                        d
                    }
                };
                // make sure the batch is in the store
                let bytes = self.batches[&d].clone();
                let _ = self.conns.mempool(p, sut, bytes).await;
                tokio::time::sleep(ms(4)).await;
                decoded = true;
                self.send_to_sut(p, &ConsensusMessage::SyncRequest(d, self.w.pk(p))).await;
                name = "sync-request-for-batch-digest".into();
            }
            10 => {
                // BatchRequest for a block digest; unknown digests; many digests
                let mut ds: Vec<Digest> = self.delivered.iter().take(3).cloned().collect();
                ds.push(sha512_32(b"unknown"));
                let origin = if self.t.chance(1, 4) { PublicKey::default() } else { self.w.pk(p) };
                let bytes = bincode::serialize(&MempoolMessage::BatchRequest(ds, origin)).unwrap();
                decoded = true;
                let _ = self.conns.mempool(p, sut, bytes).await;
                name = "batch-request-for-block-digest".into();
            }
            11 => {
                // a proposal whose payload digests are block digests / its own parent
                self.absorb();
                let round = self.cur;
                if !self.leader_is_sut(round) && !self.delivered.is_empty() {
                    let parent = self.sound_tip();
                    if self.round_of(&parent) + 1 == round {
                        // digests of blocks the node certainly stored: the ones it voted for
                        let me = self.w.pk(sut);
                        let payload: Vec<Digest> = {
                            let ib = self.inbox.lock().unwrap();
                            ib.votes.iter().filter(|(_, v)| v.author == me).rev().take(2).map(|(_, v)| v.hash.clone()).collect()
                        };
                        let qc = self.qc_of(&parent);
                        let b = self.w.block(self.w.leader(round), round, qc, None, payload);
                        decoded = true;
                        self.deliver_block(&b, None).await;
                        self.tip = Some(b.digest());
                    }
                }
                name = "payload-digests-are-block-digests".into();
            }
            12 => {
                // transactions: empty, tiny, large
                let len = *self.t.pick(&[0usize, 0, 1, 8, 9, 200, 5_000, 100_000]);
                let first = *self.t.pick(&[0u8, 0, 1, 255]);
                let mut tx = vec![first; len];
                if len > 9 {
                    tx[1..9].copy_from_slice(&7u64.to_be_bytes());
                }
                decoded = true;
                let _ = self.conns.tx(100 + from, sut, tx).await;
                name = format!("tx-len-{}", len);
            }
            13 => {
                // a well-formed batch whose bytes ALSO decode as a block (bincode tolerates nothing
                // here: the 20-byte batch header becomes the start of the block's parent hash), stored
                // by the mempool in the shared store, then a SyncRequest for its digest: the consensus
                // helper reads a "block" with an unknown parent, no votes and an arbitrary round
                let author_text = self.w.pk(p).encode_base64();
                let mut tx: Vec<u8> = Vec::new();
                tx.extend(self.t.bytes(12)); // rest of qc.hash
                tx.extend(self.t.range(0, 50).to_le_bytes()); // qc.round
                tx.extend(0u64.to_le_bytes()); // qc.votes: none
                tx.push(0); // tc: None
                tx.extend((author_text.len() as u64).to_le_bytes());
                tx.extend(author_text.as_bytes());
                tx.extend(self.t.range(0, 60).to_le_bytes()); // round
                tx.extend(0u64.to_le_bytes()); // payload: none
                tx.extend([7u8; 64]); // signature
                let bytes = bincode::serialize(&MempoolMessage::Batch(vec![tx])).unwrap();
                let as_block = bincode::deserialize::<Block>(&bytes).is_ok();
                let d = sha512_32(&bytes);
                self.batches.insert(d.clone(), bytes.clone());
                let _ = self.conns.mempool(p, sut, bytes).await;
                tokio::time::sleep(ms(4)).await;
                decoded = true;
                self.send_to_sut(p, &ConsensusMessage::SyncRequest(d, self.w.pk(p))).await;
                name = if as_block { "sync-request-for-batch-that-decodes-as-block".into() } else { "sync-request-for-crafted-batch".into() };
            }
            _ => {
                // sync request from an unknown authority, for unknown digests
                let m = ConsensusMessage::SyncRequest(sha512_32(&self.t.bytes(4)), PublicKey::default());
                decoded = true;
                self.send_to_sut(p, &m).await;
                name = "sync-request-unknown-origin".into();
            }
        }
        self.stat("hostile-input");
        self.note(json!({"step": "hostile", "kind": name}));
        self.hostile.push((name, decoded));
    }

    fn t_len(&mut self, max: usize) -> usize {
        self.t.below(max)
    }

    fn record_probe(&mut self, name: &str, ok: bool, detail: String) {
        self.probes.push((name.to_string(), ok, detail));
    }

    /// Functional probes: after everything that happened, does each service of the node still work?
    async fn run_probes(&mut self) {
        let sut = self.sut;
        let sut_pk = self.w.pk(sut);
        // (4) batching: a client transaction must come out in a batch broadcast to the peers
        let marker: Vec<u8> = vec![1, 0xC1, 0x15, 0xAA, 0x55, 0xC1, 0x15, 0xAA, 0x55, 0x77];
        let _ = self.conns.tx(99, sut, marker.clone()).await;
        tokio::time::sleep(ms(self.params.max_batch_delay + 10)).await;
        let found = {
            let ib = self.inbox.lock().unwrap();
            ib.batches.iter().any(|(bytes, _)| match bincode::deserialize::<MempoolMessage>(bytes) {
                Ok(MempoolMessage::Batch(txs)) => txs.iter().any(|t| *t == marker),
                _ => false,
            })
        };
        self.record_probe("client-transaction-batched", found, "a transaction sent to the transaction port did not appear in any batch sent to the peers".into());

        // (3) batch sync: a stored batch is served on request
        let bytes = bincode::serialize(&MempoolMessage::Batch(vec![vec![0x42; 12], vec![1, 2, 3]])).unwrap();
        let d = sha512_32(&bytes);
        let p = self.puppets[0];
        let _ = self.conns.mempool(p, sut, bytes.clone()).await;
        tokio::time::sleep(ms(5)).await;
        let req = bincode::serialize(&MempoolMessage::BatchRequest(vec![d], self.w.pk(p))).unwrap();
        let _ = self.conns.mempool(p, sut, req).await;
        tokio::time::sleep(ms(8)).await;
        let served = {
            let ib = self.inbox.lock().unwrap();
            ib.batches.iter().any(|(b, to)| *to == p && *b == bytes)
        };
        self.record_probe("batch-request-answered", served, "BatchRequest for a stored batch was not answered with the batch".into());

        // (1) consensus still processes proposals. First heal what the script itself withheld: every
        // batch it ever referenced and every block it ever crafted on the delivered chain are
        // (re)sent, oldest first, so that nothing the script did on purpose keeps the chain stuck.
        let all_batches: Vec<Vec<u8>> = self.batches.values().cloned().collect();
        for b in all_batches {
            let _ = self.conns.mempool(p, sut, b).await;
        }
        tokio::time::sleep(ms(5)).await;
        let mut known: Vec<Block> = self.blocks.values().filter(|b| b.author != sut_pk && (self.certified.contains(&b.digest()) || self.delivered.contains(&b.digest()))).cloned().collect();
        known.sort_by_key(|b| b.round);
        for b in known {
            self.send_to_sut(p, &ConsensusMessage::Propose(b)).await;
            tokio::time::sleep(ms(2)).await;
        }
        self.settle().await;
        self.serve_requests(true).await;
        self.settle().await;
        // then resynchronise on the node's round and propose
        let before_votes = self.sut_vote_count();
        let mut voted = false;
        let mut attempts = Vec::new();
        for attempt in 0..4 {
            tokio::time::sleep(ms(self.params.timeout_delay + 20)).await;
            self.absorb();
            // the node's own timeout tells its round
            let r = {
                let ib = self.inbox.lock().unwrap();
                ib.timeouts.iter().filter(|(_, t)| t.author == sut_pk).map(|(_, t)| t.round).max().unwrap_or(self.cur)
            };
            self.cur = self.cur.max(r);
            let round = self.cur;
            self.timeout_round(round, true).await;
            self.settle().await;
            for _ in 0..3 {
                self.advance(false).await;
                self.settle().await;
                self.serve_requests(true).await;
                self.settle().await;
            }
            attempts.push(round);
            if self.sut_vote_count() > before_votes {
                voted = true;
                break;
            }
            let _ = attempt;
        }
        self.record_probe("valid-proposal-voted", voted, format!("no vote of the node for any of the valid proposals offered after resynchronising (rounds tried from {:?})", attempts));

        // (2) block sync: a stored block is served on request
        let target = self.delivered.iter().rev().find(|d| self.blocks.get(*d).map_or(false, |b| b.author != sut_pk)).cloned();
        if let Some(d) = target {
            // only meaningful if the node stored it: ask for the block it voted for / processed most recently
            let p = self.puppets[0];
            let before = { self.inbox.lock().unwrap().proposals.len() };
            self.send_to_sut(p, &ConsensusMessage::SyncRequest(d.clone(), self.w.pk(p))).await;
            tokio::time::sleep(ms(8)).await;
            let answered = {
                let ib = self.inbox.lock().unwrap();
                ib.proposals.iter().skip(before).any(|(to, b)| *to == p as u32 + 1 && b.digest() == d)
            };
            // the probe only counts when the node voted (then the block is certainly stored)
            if voted {
                let voted_digest = self.last_voted_digest();
                if let Some(vd) = voted_digest {
                    let before = { self.inbox.lock().unwrap().proposals.len() };
                    self.send_to_sut(p, &ConsensusMessage::SyncRequest(vd.clone(), self.w.pk(p))).await;
                    tokio::time::sleep(ms(8)).await;
                    let ok = {
                        let ib = self.inbox.lock().unwrap();
                        ib.proposals.iter().skip(before).any(|(to, b)| *to == p as u32 + 1 && b.digest() == vd)
                    };
                    self.record_probe("sync-request-answered", ok, "SyncRequest for the block the node just voted for was not answered with it".into());
                }
            }
            let _ = answered;
        }
    }

    fn sut_vote_count(&self) -> usize {
        let me = self.w.pk(self.sut);
        let ib = self.inbox.lock().unwrap();
        let wire = ib.votes.iter().filter(|(_, v)| v.author == me).count();
        let embedded = ib.proposals.iter().filter(|(_, b)| b.author == me && b.qc.votes.iter().any(|(k, _)| *k == me)).map(|(_, b)| b.qc.round).collect::<BTreeSet<_>>().len();
        wire + embedded
    }

    fn last_voted_digest(&self) -> Option<Digest> {
        let me = self.w.pk(self.sut);
        let ib = self.inbox.lock().unwrap();
        ib.votes.iter().filter(|(_, v)| v.author == me).last().map(|(_, v)| v.hash.clone())
    }

    async fn long_sleep(&mut self) {
        let d = self.t.range(self.params.timeout_delay + 5, self.params.timeout_delay * 3);
        self.note(json!({"step": "sleep", "ms": d}));
        self.stat("long-sleep");
        tokio::time::sleep(ms(d)).await;
        self.absorb();
    }
}

pub fn solo_cfg(case: &Case) -> (usize, Vec<u32>, u64, usize, u64) {
    let n = cfg_range(&case.cfg, 0, 4, 7) as usize;
    let profile = cfg_range(&case.cfg, 1, 0, 3);
    let salt = cfg_range(&case.cfg, 2, 0, 6);
    let stakes = crate::world::stakes_profile(n, profile, salt);
    let key_seed = cfg_range(&case.cfg, 3, 0, 5);
    // the puppets (everyone but the real node) must hold a quorum on their own
    let total: u64 = stakes.iter().map(|s| *s as u64).sum();
    let q = 2 * total / 3 + 1;
    let eligible: Vec<usize> = (0..n).filter(|i| total - stakes[*i] as u64 >= q).collect();
    let (stakes, eligible) = if eligible.is_empty() { (vec![1u32; n], (0..n).collect::<Vec<_>>()) } else { (stakes, eligible) };
    let sut = eligible[cfg_range(&case.cfg, 4, 0, eligible.len() as u64 - 1) as usize];
    let rt_seed = case.cfg.get(5).copied().unwrap_or(0) as u64;
    (n, stakes, key_seed, sut, rt_seed)
}

/// Execute one generated solo history.
pub fn run_solo(case: &Case, profile: Profile, knobs: &Knobs) -> SoloRun {
    let (_n, stakes, key_seed, sut, rt_seed) = solo_cfg(case);
    let w = World::new(&stakes, key_seed);
    let dir = sim::scratch_dir("solo");
    let _guard = sim::ScratchGuard(dir.clone());
    let params = NodeParams::default();
    let tape_data = case.tape.clone();
    let knobs = knobs.clone();
    let params2 = params.clone();
    let sut_id = sut as u32 + 1;
    let (blocks, batches, steps, stats, probes, hostile, injected) = sim::run_sim(rt_seed ^ 0x5010, || async {
        let w = &w;
        simnet::install(Box::new(RigPolicy {
            on_connect: Box::new(|_, _| ConnectDecision::Accept(us(0))),
            on_frame: Box::new(|_, _| FrameDecision::Deliver(ms(1))),
            on_delivered: None,
        }));
        let inbox: SharedInbox = Arc::new(Mutex::new(Inbox::default()));
        let puppets: Vec<usize> = (0..w.n).filter(|i| *i != sut).collect();
        for p in &puppets {
            rig::start_puppet(*p, inbox.clone()).await;
        }
        rig::start_real_node(w, sut, &dir, &params2).await;
        let mut t = Tape::new(&tape_data);
        let mut s = Script {
            t: &mut t,
            w,
            sut,
            puppets,
            conns: Conns::default(),
            inbox,
            blocks: HashMap::new(),
            delivered: Vec::new(),
            batches: HashMap::new(),
            tip: None,
            cur: 1,
            pending_tc: None,
            steps: Vec::new(),
            stats: BTreeMap::new(),
            seen_sut_props: 0,
            params: params2.clone(),
            withheld: Vec::new(),
            served_sync: 0,
            served_batch: 0,
            batch_counter: 0,
            unserved: Vec::new(),
            certified: HashSet::new(),
            cert_max: 0,
            anchor: None,
            probes: Vec::new(),
            hostile: Vec::new(),
            serial: knobs.serial,
            inject: knobs.inject,
            side: knobs.inject_seed | 1,
            inject_conns: Conns::default(),
            injected: Vec::new(),
            forged: HashSet::new(),
        };
        tokio::time::sleep(ms(3)).await;
        s.absorb();
        // step kinds: 0 advance, 1 equivocate, 2 fork/gap, 3 children-first, 4 timeouts (non-benign),
        // 5 wrong leader, 6 stale/future, 7 long sleep, 8 sync probe, 9 serve requests, 10 advance with payload
        // 11 proposal with a forged certificate
        let weights: [u32; 12] = match profile {
            Profile::Chains => [10, 1, 6, 4, 3, 0, 1, 1, 1, 2, 1, 2],
            Profile::Voting => [10, 4, 4, 1, 4, 3, 3, 3, 0, 1, 1, 2],
            Profile::Payloads => [4, 1, 1, 1, 1, 0, 0, 1, 0, 4, 10, 0],
            Profile::Certs => [12, 1, 1, 0, 5, 0, 3, 2, 0, 1, 0, 2],
            Profile::Mixed => [10, 2, 3, 2, 3, 1, 2, 2, 1, 2, 2, 2],
        };
        let max_steps = if knobs.max_steps > 0 { knobs.max_steps } else { 60 };
        let mut step = 0;
        while step < max_steps && !(s.t.exhausted() && step >= 3) {
            step += 1;
            match s.t.weighted(&weights) {
                0 => s.advance(false).await,
                1 => s.equivocate().await,
                2 => s.fork_or_gap().await,
                3 => s.children_first().await,
                4 => {
                    let r = s.cur;
                    s.timeout_round(r, false).await
                }
                5 => s.wrong_leader().await,
                6 => s.stale_or_future().await,
                7 => s.long_sleep().await,
                8 => s.sync_probe().await,
                9 => s.serve_requests(false).await,
                10 => s.advance(true).await,
                _ => {
                    if s.t.chance(1, 4) {
                        s.unsigned_proposal_with_late_batch().await
                    } else {
                        s.forged_cert_proposal().await
                    }
                }
            }
            s.injection_point().await;
            s.pause().await;
            if knobs.hostile && s.t.chance(2, 3) {
                let k = 1 + s.t.below(3);
                for _ in 0..k {
                    s.hostile_input().await;
                }
                s.pause().await;
            }
        }
        // wind down: serve what is outstanding, let everything land
        s.settle().await;
        s.serve_requests(true).await;
        tokio::time::sleep(ms(30)).await;
        s.serve_requests(true).await;
        tokio::time::sleep(ms(30)).await;
        s.absorb();
        if knobs.probes {
            s.run_probes().await;
        }
        (s.blocks, s.batches, s.steps, s.stats, s.probes, s.hostile, s.injected)
    });
    let log = sim::take_log();
    let hist = rig::node_history(&log, sut_id);
    let panics = sim::panics();
    // blocks the SUT proposed itself are known from the log as well
    let mut blocks = blocks;
    for e in &hist {
        if let HEv::Out { msg, .. } = &e.ev {
            if let ConsensusMessage::Propose(b) = &**msg {
                blocks.entry(b.digest()).or_insert_with(|| b.clone());
            }
        }
    }
    SoloRun {
        w,
        sut,
        sut_id,
        params,
        log,
        hist,
        blocks,
        batches,
        steps,
        stats,
        panics,
        probes,
        hostile,
        injected,
    }
}

// ---------------------------------------------------------------------------------------------
// Shared history helpers for the oracles
// ---------------------------------------------------------------------------------------------

pub fn is_placeholder(b: &Block) -> bool {
    b.round == 0 || b.author == PublicKey::default()
}

/// Valid QCs/TCs (by reference predicate) the node has been shown in delivered frames, with the log
/// position of the delivery; plus valid votes / timeouts delivered to it.
pub struct Shown {
    pub qcs: Vec<(u64, QC)>,
    pub tcs: Vec<(u64, TC)>,
    pub votes: Vec<(u64, Vote)>,
    pub timeouts: Vec<(u64, Timeout)>,
    pub blocks: Vec<(u64, Block)>,
}

pub fn shown_to(run: &SoloRun) -> Shown {
    let w = &run.w;
    let mut s = Shown { qcs: Vec::new(), tcs: Vec::new(), votes: Vec::new(), timeouts: Vec::new(), blocks: Vec::new() };
    for e in &run.hist {
        if let HEv::In { msg, .. } = &e.ev {
            match &**msg {
                ConsensusMessage::Propose(b) => {
                    if refvalid::ref_block(w, b).is_ok() {
                        if !refvalid::is_genesis_qc(&b.qc) {
                            s.qcs.push((e.seq, b.qc.clone()));
                        }
                        if let Some(tc) = &b.tc {
                            s.tcs.push((e.seq, tc.clone()));
                        }
                        s.blocks.push((e.seq, b.clone()));
                    }
                }
                ConsensusMessage::Vote(v) => {
                    if refvalid::ref_vote(w, v).is_ok() {
                        s.votes.push((e.seq, v.clone()));
                    }
                }
                ConsensusMessage::Timeout(t) => {
                    if refvalid::ref_timeout(w, t).is_ok() {
                        if !refvalid::is_genesis_qc(&t.high_qc) {
                            s.qcs.push((e.seq, t.high_qc.clone()));
                        }
                        s.timeouts.push((e.seq, t.clone()));
                    }
                }
                ConsensusMessage::TC(tc) => {
                    if refvalid::ref_tc(w, tc).is_ok() {
                        s.tcs.push((e.seq, tc.clone()));
                    }
                }
                ConsensusMessage::SyncRequest(..) => {}
            }
        }
    }
    s
}

/// Is a certificate for exactly `round` available to the node before log position `before`?
/// QC/TC inside a delivered valid frame, or quorum-many valid votes (same block) / timeouts for that
/// round counting the node's own stake (it may have voted / timed out itself).
pub fn cert_available(run: &SoloRun, shown: &Shown, round: u64, before: u64) -> bool {
    if shown.qcs.iter().any(|(s, q)| *s < before && q.round == round) {
        return true;
    }
    if shown.tcs.iter().any(|(s, t)| *s < before && t.round == round) {
        return true;
    }
    let w = &run.w;
    let own = w.stakes[run.sut] as u64;
    let mut per_block: HashMap<Digest, HashSet<usize>> = HashMap::new();
    for (s, v) in &shown.votes {
        if *s < before && v.round == round {
            if let Some(i) = w.index_of(&v.author) {
                per_block.entry(v.hash.clone()).or_default().insert(i);
            }
        }
    }
    for (_, set) in per_block {
        let mut set: Vec<usize> = set.into_iter().filter(|i| *i != run.sut).collect();
        set.sort();
        if w.stake_of(&set) + own >= w.quorum() {
            return true;
        }
    }
    let mut authors: BTreeSet<usize> = BTreeSet::new();
    for (s, t) in &shown.timeouts {
        if *s < before && t.round == round {
            if let Some(i) = w.index_of(&t.author) {
                if i != run.sut {
                    authors.insert(i);
                }
            }
        }
    }
    let v: Vec<usize> = authors.into_iter().collect();
    w.stake_of(&v) + own >= w.quorum()
}

pub fn render_hist(run: &SoloRun, max: usize) -> Value {
    let mut out = Vec::new();
    for e in &run.hist {
        let v = match &e.ev {
            HEv::Out { to, msg } => json!({"seq": e.seq, "t_us": e.t_us, "out_to": to, "msg": render_msg(msg)}),
            HEv::In { from, msg } => json!({"seq": e.seq, "t_us": e.t_us, "in_from": from, "msg": render_msg(msg)}),
            HEv::InJunk { from } => json!({"seq": e.seq, "t_us": e.t_us, "in_from": from, "msg": "undecodable"}),
            HEv::Commit(b) => json!({"seq": e.seq, "t_us": e.t_us, "commit": {"round": b.round, "digest": rig::short(&b.digest()), "parent": rig::short(&b.qc.hash), "qc_round": b.qc.round}}),
            HEv::StoreWrite(k) => json!({"seq": e.seq, "t_us": e.t_us, "store_write": base64::encode(&k[..k.len().min(6)])}),
            HEv::MempoolOut { to, msg, .. } => json!({"seq": e.seq, "t_us": e.t_us, "mempool_out_to": to, "msg": match &**msg { MempoolMessage::Batch(b) => format!("Batch({} txs)", b.len()), MempoolMessage::BatchRequest(d, _) => format!("BatchRequest({})", d.len()) }}),
            HEv::MempoolIn { from, bytes } => json!({"seq": e.seq, "t_us": e.t_us, "mempool_in_from": from, "len": bytes.len()}),
            HEv::Panic(p) => json!({"seq": e.seq, "t_us": e.t_us, "panic": format!("{} {}", p.location, p.message)}),
            HEv::AckIn { .. } => continue,
        };
        out.push(v);
        if out.len() >= max {
            out.push(json!("... truncated"));
            break;
        }
    }
    Value::Array(out)
}

pub fn render_msg(m: &ConsensusMessage) -> String {
    match m {
        ConsensusMessage::Propose(b) => format!(
            "Propose(round {}, {}, parent {} qc_round {}, tc {:?}, payload {})",
            b.round,
            rig::short(&b.digest()),
            rig::short(&b.qc.hash),
            b.qc.round,
            b.tc.as_ref().map(|t| (t.round, t.high_qc_rounds())),
            b.payload.len()
        ),
        ConsensusMessage::Vote(v) => format!("Vote(round {}, {}, by {})", v.round, rig::short(&v.hash), v.author),
        ConsensusMessage::Timeout(t) => format!("Timeout(round {}, high_qc_round {}, by {})", t.round, t.high_qc.round, t.author),
        ConsensusMessage::TC(t) => format!("TC(round {}, {:?})", t.round, t.high_qc_rounds()),
        ConsensusMessage::SyncRequest(d, k) => format!("SyncRequest({}, {})", rig::short(d), k),
    }
}

pub fn sample_of(run: &SoloRun) -> Value {
    json!({
        "n": run.w.n,
        "stakes": run.w.stakes,
        "sut": run.sut,
        "script": run.steps.iter().take(40).cloned().collect::<Vec<_>>(),
        "script_steps": run.steps.len(),
        "stats": run.stats,
        "sut_events": run.hist.len(),
    })
}
