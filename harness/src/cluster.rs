//! Cluster rig: several real nodes (started through the real node.rs wiring) on the in-memory
//! transport, optionally together with harness-played authorities (silent or Byzantine), under a
//! network controller that owns per-link delays, partitions, crashes and connection cuts.
use crate::rig::{self, NodeParams};
use crate::sim::{self, ms, us, Ev, Event, RigPolicy};
use crate::world::{node_of_port, port_kind, PortKind, World};
use consensus::Block;
use crypto::{Digest, Hash as _};
use network::simnet::{self, ConnectDecision, FrameDecision, FrameInfo};
use std::cell::RefCell;
use std::collections::{BTreeMap, HashMap, HashSet};
use std::rc::Rc;
use tokio::time::Duration;

#[derive(Clone, Debug, PartialEq)]
pub enum LinkMode {
    /// frames are silently discarded (the writer notices nothing)
    Drop,
    /// connections are reset and new ones refused
    Cut,
}

#[derive(Clone, Debug)]
pub struct Crash {
    /// the node is crashed from this instant on ...
    pub at_us: Option<u64>,
    /// ... or after it has written this many more frames (so a crash can fall inside a broadcast)
    pub after_frames: Option<u64>,
    /// ... or after it has written this many frames of one consensus message kind (variant index:
    /// 0 Propose, 1 Vote, 2 Timeout, 3 TC), so that a crash can split one particular broadcast
    pub after_kind: Option<(u32, u64)>,
    pub kind_written: u64,
    /// ... or in the middle of its k-th broadcast (k-th distinct instant) of one message kind: that
    /// broadcast reaches only the listed recipients (a crash inside the send loop, whose order is
    /// arbitrary), nothing it writes afterwards is delivered
    pub split: Option<(u32, u64, Vec<u32>)>,
    pub split_seen: Vec<u64>,
    /// frames it wrote before the crash point are still delivered (delayed, not lost)
    pub crashed: bool,
}

pub fn consensus_kind(info: &FrameInfo, payload: &[u8]) -> Option<u32> {
    if info.forward && port_kind(info.dst_port) == PortKind::Consensus && payload.len() >= 4 {
        Some(u32::from_le_bytes([payload[0], payload[1], payload[2], payload[3]]))
    } else {
        None
    }
}

pub struct NetCtl {
    pub seed: u64,
    pub base_us: u64,
    pub jitter_us: u64,
    /// before this instant frames may be delayed by up to `pre_gst_extra_us` more
    pub gst_us: u64,
    pub pre_gst_extra_us: u64,
    pub crash: HashMap<u32, Crash>,
    pub isolated: HashMap<u32, LinkMode>,
    /// (src node, dst node, port kind) links on which frames are silently dropped
    pub drop_links: HashSet<(u32, u32, PortKind)>,
    /// per-node count of frames written (for frame-count crash triggers)
    pub written: HashMap<u32, u64>,
    pub frames: u64,
    /// optional per-frame override hook (Byzantine scripts, targeted delays)
    pub hook: Option<Box<dyn FnMut(&FrameInfo, &[u8], u32, u32) -> Option<FrameDecision>>>,
}

impl NetCtl {
    pub fn new(seed: u64) -> Self {
        Self {
            seed,
            base_us: 2_000,
            jitter_us: 3_000,
            gst_us: 0,
            pre_gst_extra_us: 0,
            crash: HashMap::new(),
            isolated: HashMap::new(),
            drop_links: HashSet::new(),
            written: HashMap::new(),
            frames: 0,
            hook: None,
        }
    }

    fn keyed(&self, info: &FrameInfo, salt: u64) -> u64 {
        // delay is a function of (seed, link, per-link frame index) only
        let mut x = self.seed ^ salt;
        for v in [info.src_node as u64, info.dst_port as u64, info.forward as u64, info.seq] {
            x ^= v.wrapping_add(0x9e3779b97f4a7c15).wrapping_add(x << 6).wrapping_add(x >> 2);
            x = x.wrapping_mul(0xff51afd7ed558ccd);
            x ^= x >> 33;
        }
        x
    }

    pub fn is_crashed(&self, node: u32) -> bool {
        self.crash.get(&node).map_or(false, |c| c.crashed)
    }
}

pub type SharedCtl = Rc<RefCell<NetCtl>>;

fn endpoints(info: &FrameInfo) -> (u32, u32) {
    let listener = node_of_port(info.dst_port);
    if info.forward {
        (info.src_node, listener)
    } else {
        (listener, info.src_node)
    }
}

pub fn install_policy(ctl: SharedCtl) {
    let c1 = ctl.clone();
    let c2 = ctl;
    simnet::install(Box::new(RigPolicy {
        on_connect: Box::new(move |src, port| {
            let c = c1.borrow();
            let dst = node_of_port(port);
            // client connections (node ids >= 100) are never refused unless the target is crashed
            for n in [src, dst] {
                if c.is_crashed(n) || c.isolated.get(&n) == Some(&LinkMode::Cut) {
                    return ConnectDecision::Refuse;
                }
            }
            ConnectDecision::Accept(us(0))
        }),
        on_frame: Box::new(move |info, payload| {
            let mut c = c2.borrow_mut();
            c.frames += 1;
            let (src, dst) = endpoints(info);
            let now = sim::now_us();
            // crash triggers
            let written = {
                let w = c.written.entry(src).or_insert(0);
                *w += 1;
                *w
            };
            if let Some(cr) = c.crash.get_mut(&src) {
                if !cr.crashed {
                    if cr.at_us.map_or(false, |t| now >= t) {
                        cr.crashed = true;
                    }
                    if let Some(k) = cr.after_frames {
                        if written > k {
                            cr.crashed = true;
                        }
                    }
                    if let Some((kind, k, keep)) = cr.split.clone() {
                        if consensus_kind(info, payload) == Some(kind) {
                            if !cr.split_seen.contains(&now) {
                                cr.split_seen.push(now);
                            }
                            if cr.split_seen.len() as u64 == k + 1 {
                                // the split broadcast: deliver to the chosen recipients only
                                if !keep.contains(&dst) {
                                    return FrameDecision::Drop;
                                }
                            } else if cr.split_seen.len() as u64 > k + 1 {
                                cr.crashed = true;
                            }
                        } else if cr.split_seen.len() as u64 > k {
                            // anything else written after the split broadcast began
                            cr.crashed = true;
                        }
                    }
                    if let Some((kind, k)) = cr.after_kind {
                        if consensus_kind(info, payload) == Some(kind) {
                            cr.kind_written += 1;
                            if cr.kind_written > k {
                                cr.crashed = true;
                            }
                        }
                    }
                }
            }
            if let Some(cr) = c.crash.get_mut(&dst) {
                if !cr.crashed && cr.at_us.map_or(false, |t| now >= t) {
                    cr.crashed = true;
                }
            }
            if c.is_crashed(src) || c.is_crashed(dst) {
                return FrameDecision::Drop;
            }
            for n in [src, dst] {
                match c.isolated.get(&n) {
                    Some(LinkMode::Drop) => return FrameDecision::Drop,
                    Some(LinkMode::Cut) => return FrameDecision::Reset,
                    None => {}
                }
            }
            if info.forward && c.drop_links.contains(&(src, dst, port_kind(info.dst_port))) {
                return FrameDecision::Drop;
            }
            if let Some(mut hook) = c.hook.take() {
                let r = hook(info, payload, src, dst);
                c.hook = Some(hook);
                if let Some(d) = r {
                    return d;
                }
            }
            let mut d = c.base_us + if c.jitter_us > 0 { c.keyed(info, 1) % c.jitter_us } else { 0 };
            if now < c.gst_us && c.pre_gst_extra_us > 0 {
                // heavy tail before stabilisation, but never beyond GST + a little: delayed, not lost
                let k = c.keyed(info, 2);
                let extra = match k % 4 {
                    0 => 0,
                    1 => (k >> 8) % (c.pre_gst_extra_us / 8 + 1),
                    2 => (k >> 8) % (c.pre_gst_extra_us / 2 + 1),
                    _ => (k >> 8) % (c.pre_gst_extra_us + 1),
                };
                d += extra;
            }
            FrameDecision::Deliver(Duration::from_micros(d))
        }),
        on_delivered: None,
    }));
}

/// Isolate a node now (and cut its live connections when the mode says so).
pub fn isolate(ctl: &SharedCtl, node: u32, mode: LinkMode) {
    ctl.borrow_mut().isolated.insert(node, mode.clone());
    if mode == LinkMode::Cut {
        let ports: Vec<u16> = [crate::world::CONSENSUS_PORT, crate::world::MEMPOOL_PORT, crate::world::TX_PORT].iter().map(|b| b + (node as u16 - 1)).collect();
        simnet::cut_where(|_, src, port| src == node || ports.contains(&port));
    }
}

pub fn heal(ctl: &SharedCtl, node: u32) {
    ctl.borrow_mut().isolated.remove(&node);
}

pub struct ClusterRun {
    pub w: World,
    pub real: Vec<usize>,
    pub log: Vec<Event>,
    pub dir: String,
    pub params: NodeParams,
    pub panics: Vec<sim::PanicRec>,
}

/// Commit sequence of each real node: (t_us, seq, block).
pub fn commits_by_node(log: &[Event]) -> BTreeMap<u32, Vec<(u64, u64, Rc<Block>)>> {
    let mut m: BTreeMap<u32, Vec<(u64, u64, Rc<Block>)>> = BTreeMap::new();
    for e in log {
        if let Ev::Commit { node, block } = &e.ev {
            m.entry(*node).or_default().push((e.t_us, e.seq, block.clone()));
        }
    }
    m
}

/// Every block that appeared in a Propose frame on the wire (any author), by digest.
pub fn blocks_on_wire(log: &[Event]) -> HashMap<Digest, Block> {
    let mut m = HashMap::new();
    for e in log {
        if let Ev::Sent { info, bytes, .. } = &e.ev {
            if info.forward && port_kind(info.dst_port) == PortKind::Consensus {
                if let Ok(consensus::ConsensusMessage::Propose(b)) = bincode::deserialize::<consensus::ConsensusMessage>(bytes) {
                    m.entry(b.digest()).or_insert(b);
                }
            }
        }
    }
    m
}

pub async fn start_real_nodes(w: &World, real: &[usize], dir: &str, params: &NodeParams) {
    for i in real {
        rig::start_real_node(w, *i, dir, params).await;
    }
}

pub fn ms_(n: u64) -> Duration {
    ms(n)
}
