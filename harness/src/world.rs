//! Harness-side view of a committee: deterministic keys, both committee structs, and helpers to
//! craft correctly signed messages for any authority the harness plays.
use consensus::{Block, Committee as CCommittee, Round, Timeout, Vote, QC, TC};
use crypto::{generate_keypair, Digest, Hash as _, PublicKey, SecretKey, Signature};
use ed25519_dalek::{Digest as _, Sha512};
use mempool::Committee as MCommittee;
use rand::rngs::StdRng;
use rand::SeedableRng;
use std::convert::TryInto;
use std::net::SocketAddr;

pub const CONSENSUS_PORT: u16 = 9000;
pub const TX_PORT: u16 = 9100;
pub const MEMPOOL_PORT: u16 = 9200;

pub fn addr(port: u16) -> SocketAddr {
    format!("127.0.0.1:{}", port).parse().unwrap()
}

#[derive(Clone, Copy, PartialEq, Eq, Debug, Hash)]
pub enum PortKind {
    Consensus,
    Tx,
    Mempool,
    Other,
}

pub fn port_kind(port: u16) -> PortKind {
    match port / 100 {
        90 => PortKind::Consensus,
        91 => PortKind::Tx,
        92 => PortKind::Mempool,
        _ => PortKind::Other,
    }
}

/// Node id (1-based) owning a port.
pub fn node_of_port(port: u16) -> u32 {
    (port % 100) as u32 + 1
}

pub fn sha512_32(data: &[u8]) -> Digest {
    Digest(Sha512::digest(data).as_slice()[..32].try_into().unwrap())
}

pub fn clone_secret(s: &SecretKey) -> SecretKey {
    SecretKey::decode_base64(&s.encode_base64()).expect("secret key round trip")
}

pub struct World {
    pub n: usize,
    pub keys: Vec<(PublicKey, SecretKey)>,
    pub stakes: Vec<u32>,
    pub ccom: CCommittee,
    pub mcom: MCommittee,
    /// Authority indices in leader-rotation order (sorted by public key).
    pub sorted: Vec<usize>,
}

impl World {
    pub fn new(stakes: &[u32], key_seed: u64) -> Self {
        let n = stakes.len();
        let mut seed = [0u8; 32];
        seed[..8].copy_from_slice(&key_seed.to_le_bytes());
        seed[8] = 0x5a;
        let mut rng = StdRng::from_seed(seed);
        let keys: Vec<(PublicKey, SecretKey)> = (0..n).map(|_| generate_keypair(&mut rng)).collect();
        let ccom = CCommittee::new(
            keys.iter()
                .enumerate()
                .map(|(i, (k, _))| (*k, stakes[i], addr(CONSENSUS_PORT + i as u16)))
                .collect(),
            1,
        );
        let mcom = MCommittee::new(
            keys.iter()
                .enumerate()
                .map(|(i, (k, _))| (*k, stakes[i], addr(TX_PORT + i as u16), addr(MEMPOOL_PORT + i as u16)))
                .collect(),
            1,
        );
        let mut sorted: Vec<usize> = (0..n).collect();
        sorted.sort_by_key(|i| keys[*i].0);
        Self {
            n,
            keys,
            stakes: stakes.to_vec(),
            ccom,
            mcom,
            sorted,
        }
    }

    pub fn pk(&self, i: usize) -> PublicKey {
        self.keys[i].0
    }

    pub fn index_of(&self, pk: &PublicKey) -> Option<usize> {
        self.keys.iter().position(|(p, _)| p == pk)
    }

    /// The leader the code under test elects (C09's component part checks that this function is a
    /// consistent rotation; the property does not fix the order of the rotation).
    pub fn leader(&self, round: Round) -> usize {
        let pk = consensus::LeaderElector::new(self.ccom.clone()).get_leader(round);
        self.index_of(&pk).unwrap_or(self.sorted[(round % self.n as u64) as usize])
    }

    pub fn total_stake(&self) -> u64 {
        self.stakes.iter().map(|s| *s as u64).sum()
    }

    /// Reference quorum threshold floor(2N/3)+1 computed in u64.
    pub fn quorum(&self) -> u64 {
        2 * self.total_stake() / 3 + 1
    }

    pub fn stake_of(&self, set: &[usize]) -> u64 {
        let mut seen = std::collections::HashSet::new();
        set.iter().filter(|i| seen.insert(**i)).map(|i| self.stakes[*i] as u64).sum()
    }

    pub fn sign(&self, i: usize, digest: &Digest) -> Signature {
        Signature::new(digest, &self.keys[i].1)
    }

    pub fn block(&self, author: usize, round: Round, qc: QC, tc: Option<TC>, payload: Vec<Digest>) -> Block {
        let b = Block {
            qc,
            tc,
            author: self.pk(author),
            round,
            payload,
            signature: Signature::default(),
        };
        let signature = self.sign(author, &b.digest());
        Block { signature, ..b }
    }

    pub fn vote_for(&self, i: usize, hash: Digest, round: Round) -> Vote {
        let v = Vote {
            hash,
            round,
            author: self.pk(i),
            signature: Signature::default(),
        };
        let signature = self.sign(i, &v.digest());
        Vote { signature, ..v }
    }

    pub fn vote(&self, i: usize, b: &Block) -> Vote {
        self.vote_for(i, b.digest(), b.round)
    }

    pub fn qc_for(&self, hash: Digest, round: Round, signers: &[usize]) -> QC {
        let qc = QC {
            hash,
            round,
            votes: Vec::new(),
        };
        let d = qc.digest();
        QC {
            votes: signers.iter().map(|i| (self.pk(*i), self.sign(*i, &d))).collect(),
            ..qc
        }
    }

    pub fn qc(&self, b: &Block, signers: &[usize]) -> QC {
        self.qc_for(b.digest(), b.round, signers)
    }

    pub fn timeout(&self, i: usize, round: Round, high_qc: QC) -> Timeout {
        let t = Timeout {
            high_qc,
            round,
            author: self.pk(i),
            signature: Signature::default(),
        };
        let signature = self.sign(i, &t.digest());
        Timeout { signature, ..t }
    }

    /// TC for `round` from (signer, reported high-QC round) pairs.
    pub fn tc(&self, round: Round, entries: &[(usize, Round)]) -> TC {
        TC {
            round,
            votes: entries
                .iter()
                .map(|(i, hr)| {
                    let mut hasher = Sha512::new();
                    hasher.update(round.to_le_bytes());
                    hasher.update(hr.to_le_bytes());
                    let d = Digest(hasher.finalize().as_slice()[..32].try_into().unwrap());
                    (self.pk(*i), self.sign(*i, &d), *hr)
                })
                .collect(),
        }
    }

    /// Smallest prefix of `candidates` whose stake reaches the quorum (None if it cannot).
    pub fn quorum_subset(&self, candidates: &[usize]) -> Option<Vec<usize>> {
        let q = self.quorum();
        let mut acc = 0u64;
        let mut out = Vec::new();
        for i in candidates {
            if self.stakes[*i] == 0 {
                continue;
            }
            out.push(*i);
            acc += self.stakes[*i] as u64;
            if acc >= q {
                return Some(out);
            }
        }
        None
    }
}

/// Stake vector from a profile number (0 = equal stakes).
pub fn stakes_profile(n: usize, profile: u64, salt: u64) -> Vec<u32> {
    match profile {
        0 => vec![1; n],
        1 => (0..n).map(|i| 1 + ((i as u64 + salt) % 3) as u32).collect(),
        2 => {
            // one heavier member, still below one third so that f >= its stake is not required
            let mut v = vec![2; n];
            v[(salt % n as u64) as usize] = 3;
            v
        }
        _ => (0..n).map(|i| 1 + ((i as u64 * 7 + salt * 3) % 4) as u32).collect(),
    }
}
