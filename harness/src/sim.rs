//! Simulation plumbing: one `current_thread` tokio runtime per case with a paused (virtual) clock, a
//! seeded scheduler, node identity tracked through tokio's task hooks, a process-wide panic hook
//! that records into a thread-local, and the global event log.
use network::simnet::{self, ConnectDecision, FrameDecision, FrameInfo, NodeId, Policy};
use std::cell::{Cell, RefCell};
use std::collections::HashMap;
use std::future::Future;
use std::rc::Rc;
use std::sync::Once;
use tokio::time::{Duration, Instant};

#[derive(Clone, Debug)]
pub struct PanicRec {
    pub node: NodeId,
    pub location: String,
    pub message: String,
    pub t_us: u64,
}

#[derive(Clone, Debug)]
pub enum Ev {
    /// A frame was written (and not discarded by the writer-side crash model).
    Sent { info: FrameInfo, bytes: Rc<Vec<u8>>, dropped: bool },
    Delivered { info: FrameInfo, bytes: Rc<Vec<u8>> },
    Opened { conn: u64, src: NodeId, port: u16 },
    Closed { conn: u64 },
    Commit { node: NodeId, block: Rc<consensus::Block> },
    StoreWrite { node: NodeId, key: Vec<u8>, len: usize },
    /// A digest handed by a mempool to its consensus (component rigs).
    Digest { node: NodeId, digest: Vec<u8> },
    Panic(PanicRec),
    Note(String),
}

#[derive(Clone, Debug)]
pub struct Event {
    pub seq: u64,
    pub t_us: u64,
    pub ev: Ev,
}

thread_local! {
    static TASK_NODE: RefCell<HashMap<tokio::task::Id, NodeId>> = RefCell::new(HashMap::new());
    static PANICS: RefCell<Vec<PanicRec>> = RefCell::new(Vec::new());
    static ALL_PANICS: RefCell<Vec<PanicRec>> = RefCell::new(Vec::new());
    static LOG: RefCell<Vec<Event>> = RefCell::new(Vec::new());
    static START: Cell<Option<Instant>> = Cell::new(None);
    static IN_SIM: Cell<bool> = Cell::new(false);
    static LOGGING: Cell<bool> = Cell::new(true);
}

static HOOK: Once = Once::new();

pub fn install_panic_hook() {
    HOOK.call_once(|| {
        let default = std::panic::take_hook();
        std::panic::set_hook(Box::new(move |info| {
            let in_sim = IN_SIM.with(|c| c.get());
            let location = info
                .location()
                .map(|l| format!("{}:{}", l.file(), l.line()))
                .unwrap_or_else(|| "?".into());
            let message = if let Some(s) = info.payload().downcast_ref::<&str>() {
                s.to_string()
            } else if let Some(s) = info.payload().downcast_ref::<String>() {
                s.clone()
            } else {
                "<non-string panic payload>".to_string()
            };
            let rec = PanicRec {
                node: simnet::current_node(),
                location: location.clone(),
                message,
                t_us: now_us(),
            };
            ALL_PANICS.with(|p| p.borrow_mut().push(rec.clone()));
            if in_sim {
                PANICS.with(|p| p.borrow_mut().push(rec.clone()));
                log(Ev::Panic(rec));
            } else if location.starts_with("src/") {
                default(info);
            }
        }));
    });
}

pub fn now_us() -> u64 {
    START.with(|s| match s.get() {
        Some(t0) => Instant::now().saturating_duration_since(t0).as_micros() as u64,
        None => 0,
    })
}

pub fn log(ev: Ev) {
    if !LOGGING.with(|l| l.get()) {
        return;
    }
    let t_us = now_us();
    LOG.with(|l| {
        if let Ok(mut l) = l.try_borrow_mut() {
            let seq = l.len() as u64;
            l.push(Event { seq, t_us, ev });
        }
    });
}

pub fn set_logging(on: bool) {
    LOGGING.with(|l| l.set(on));
}

pub fn log_len() -> usize {
    LOG.with(|l| l.borrow().len())
}

pub fn take_log() -> Vec<Event> {
    LOG.with(|l| std::mem::take(&mut *l.borrow_mut()))
}

pub fn with_log<R>(f: impl FnOnce(&[Event]) -> R) -> R {
    LOG.with(|l| f(&l.borrow()))
}

pub fn panic_count() -> usize {
    ALL_PANICS.with(|p| p.borrow().len())
}

pub fn last_panic_since(before: usize) -> Option<PanicRec> {
    ALL_PANICS.with(|p| {
        let p = p.borrow();
        if p.len() > before {
            p.last().cloned()
        } else {
            None
        }
    })
}

pub fn panics_since(before: usize) -> Vec<PanicRec> {
    ALL_PANICS.with(|p| p.borrow().iter().skip(before).cloned().collect())
}

pub fn panics() -> Vec<PanicRec> {
    PANICS.with(|p| p.borrow().clone())
}

/// Run `f` with the current node set to `node`, so that tasks it spawns belong to that node.
pub fn as_node<R>(node: NodeId, f: impl FnOnce() -> R) -> R {
    let prev = simnet::current_node();
    simnet::set_current_node(node);
    let r = f();
    simnet::set_current_node(prev);
    r
}

/// Build the runtime, run one simulation to completion, tear everything down.
pub fn run_sim<F, T>(seed: u64, f: impl FnOnce() -> F) -> T
where
    F: Future<Output = T>,
{
    run_sim_opt(seed, true, f)
}

/// Same rig on the real clock (used only where the interesting interleavings need time to pass
/// while tasks are runnable, which a paused clock never allows).
pub fn run_sim_realtime<F, T>(seed: u64, f: impl FnOnce() -> F) -> T
where
    F: Future<Output = T>,
{
    run_sim_opt(seed, false, f)
}

fn run_sim_opt<F, T>(seed: u64, paused: bool, f: impl FnOnce() -> F) -> T
where
    F: Future<Output = T>,
{
    install_panic_hook();
    TASK_NODE.with(|m| m.borrow_mut().clear());
    PANICS.with(|p| p.borrow_mut().clear());
    LOG.with(|l| l.borrow_mut().clear());
    LOGGING.with(|l| l.set(true));
    simnet::reset();
    store::verif::set_write_observer(Some(Box::new(|key: &[u8], value: &[u8]| {
        log(Ev::StoreWrite {
            node: simnet::current_node(),
            key: key.to_vec(),
            len: value.len(),
        });
    })));
    let rt = tokio::runtime::Builder::new_current_thread()
        .enable_time()
        .start_paused(paused)
        .rng_seed(tokio::runtime::RngSeed::from_bytes(&seed.to_le_bytes()))
        .on_task_spawn(|meta| {
            let cur = simnet::current_node();
            TASK_NODE.with(|m| m.borrow_mut().insert(meta.id(), cur));
        })
        .on_before_task_poll(|meta| {
            let n = TASK_NODE.with(|m| m.borrow().get(&meta.id()).copied().unwrap_or(0));
            simnet::set_current_node(n);
        })
        .on_after_task_poll(|_| simnet::set_current_node(0))
        .on_task_terminate(|meta| {
            TASK_NODE.with(|m| {
                if let Ok(mut m) = m.try_borrow_mut() {
                    m.remove(&meta.id());
                }
            });
        })
        .build()
        .expect("runtime");
    IN_SIM.with(|c| c.set(true));
    let out = rt.block_on(async {
        START.with(|s| s.set(Some(Instant::now())));
        tokio::spawn(simnet::pump());
        f().await
    });
    // Dropping the runtime drops every task (and with them stores, sockets, timers).
    drop(rt);
    IN_SIM.with(|c| c.set(false));
    store::verif::set_write_observer(None);
    simnet::reset();
    TASK_NODE.with(|m| m.borrow_mut().clear());
    out
}

/// Policy adaptor: logs every event into the global log and delegates decisions to closures.
pub struct RigPolicy {
    pub on_connect: Box<dyn FnMut(NodeId, u16) -> ConnectDecision>,
    pub on_frame: Box<dyn FnMut(&FrameInfo, &[u8]) -> FrameDecision>,
    pub on_delivered: Option<Box<dyn FnMut(&FrameInfo, &[u8])>>,
}

impl Policy for RigPolicy {
    fn connect(&mut self, src: NodeId, port: u16) -> ConnectDecision {
        (self.on_connect)(src, port)
    }
    fn opened(&mut self, conn: u64, src: NodeId, port: u16) {
        log(Ev::Opened { conn, src, port });
    }
    fn frame(&mut self, info: &FrameInfo, payload: &[u8]) -> FrameDecision {
        let d = (self.on_frame)(info, payload);
        let dropped = matches!(d, FrameDecision::Drop | FrameDecision::Reset);
        log(Ev::Sent {
            info: info.clone(),
            bytes: Rc::new(payload.to_vec()),
            dropped,
        });
        d
    }
    fn delivered(&mut self, info: &FrameInfo, payload: &[u8]) {
        log(Ev::Delivered {
            info: info.clone(),
            bytes: Rc::new(payload.to_vec()),
        });
        if let Some(f) = self.on_delivered.as_mut() {
            f(info, payload);
        }
    }
    fn closed(&mut self, conn: u64) {
        log(Ev::Closed { conn });
    }
}

pub fn ms(n: u64) -> Duration {
    Duration::from_millis(n)
}

pub fn us(n: u64) -> Duration {
    Duration::from_micros(n)
}

/// Scratch directory on tmpfs, unique per thread and case.
pub fn scratch_dir(tag: &str) -> String {
    thread_local! { static COUNTER: Cell<u64> = Cell::new(0); }
    let c = COUNTER.with(|c| {
        let v = c.get();
        c.set(v + 1);
        v
    });
    let tid = format!("{:?}", std::thread::current().id());
    let tid: String = tid.chars().filter(|c| c.is_ascii_digit()).collect();
    let base = if std::path::Path::new("/dev/shm").is_dir() { "/dev/shm" } else { "/tmp" };
    let dir = format!("{}/hsv-{}-{}-{}-{}", base, std::process::id(), tid, tag, c);
    let _ = std::fs::remove_dir_all(&dir);
    std::fs::create_dir_all(&dir).expect("scratch dir");
    dir
}

pub struct ScratchGuard(pub String);
impl Drop for ScratchGuard {
    fn drop(&mut self) {
        let _ = std::fs::remove_dir_all(&self.0);
    }
}
