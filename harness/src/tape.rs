//! Choice tape: every random decision of a generated case is read from a `Vec<u32>` produced by
//! proptest, mapped monotonically so that 0 is always the first ("benign") alternative and proptest's
//! integer/vector shrinking moves a failing history toward "fewer events, all benign".
use serde::{Deserialize, Serialize};

#[derive(Clone, Debug, Serialize, Deserialize, PartialEq, Eq, Hash)]
pub struct Case {
    /// Small fixed-length configuration vector (committee size, stakes, parameters ...).
    pub cfg: Vec<u32>,
    /// Decision tape consumed by the interpreter; exhausted tape reads as 0.
    pub tape: Vec<u32>,
}

pub struct Tape<'a> {
    data: &'a [u32],
    pos: usize,
}

impl<'a> Tape<'a> {
    pub fn new(data: &'a [u32]) -> Self {
        Self { data, pos: 0 }
    }

    pub fn raw(&mut self) -> u32 {
        let v = self.data.get(self.pos).copied().unwrap_or(0);
        self.pos += 1;
        v
    }

    pub fn exhausted(&self) -> bool {
        self.pos >= self.data.len()
    }

    pub fn consumed(&self) -> usize {
        self.pos
    }

    /// Uniform choice in 0..n (monotone in the tape value).
    pub fn below(&mut self, n: usize) -> usize {
        if n <= 1 {
            // still consume, so that tapes stay aligned when n varies between runs
            let _ = self.raw();
            return 0;
        }
        ((self.raw() as u64 * n as u64) >> 32) as usize
    }

    /// Inclusive range lo..=hi.
    pub fn range(&mut self, lo: u64, hi: u64) -> u64 {
        if hi <= lo {
            let _ = self.raw();
            return lo;
        }
        let span = hi - lo + 1;
        lo + ((self.raw() as u128 * span as u128) >> 32) as u64
    }

    /// Weighted choice; index 0 is what an exhausted or fully shrunk tape selects.
    pub fn weighted(&mut self, weights: &[u32]) -> usize {
        let total: u64 = weights.iter().map(|w| *w as u64).sum();
        if total == 0 {
            let _ = self.raw();
            return 0;
        }
        let x = (self.raw() as u64 * total) >> 32;
        let mut acc = 0u64;
        for (i, w) in weights.iter().enumerate() {
            acc += *w as u64;
            if x < acc {
                return i;
            }
        }
        weights.len() - 1
    }

    /// true with probability num/den; false is the benign value.
    pub fn chance(&mut self, num: u32, den: u32) -> bool {
        self.weighted(&[den - num.min(den), num.min(den)]) == 1
    }

    pub fn u64(&mut self) -> u64 {
        ((self.raw() as u64) << 32) | self.raw() as u64
    }

    pub fn bytes(&mut self, len: usize) -> Vec<u8> {
        let mut out = Vec::with_capacity(len);
        while out.len() < len {
            let v = self.raw().to_le_bytes();
            for b in v {
                if out.len() < len {
                    out.push(b);
                }
            }
        }
        out
    }

    pub fn pick<'b, T>(&mut self, items: &'b [T]) -> &'b T {
        let i = self.below(items.len());
        &items[i]
    }
}

/// Read a configuration entry monotonically into lo..=hi.
pub fn cfg_range(cfg: &[u32], idx: usize, lo: u64, hi: u64) -> u64 {
    let v = cfg.get(idx).copied().unwrap_or(0);
    if hi <= lo {
        return lo;
    }
    let span = hi - lo + 1;
    lo + ((v as u128 * span as u128) >> 32) as u64
}

pub fn fnv(data: &[u8]) -> u64 {
    let mut h: u64 = 0xcbf29ce484222325;
    for b in data {
        h ^= *b as u64;
        h = h.wrapping_mul(0x100000001b3);
    }
    h
}

pub fn fnv_case(case: &Case) -> u64 {
    let mut bytes = Vec::with_capacity(4 * (case.cfg.len() + case.tape.len()) + 1);
    for v in &case.cfg {
        bytes.extend(v.to_le_bytes());
    }
    bytes.push(0xff);
    for v in &case.tape {
        bytes.extend(v.to_le_bytes());
    }
    fnv(&bytes)
}
