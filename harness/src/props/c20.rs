//! C20 — message identity: digest injectivity on the named fields, disjointness of the three signed
//! digest kinds, digest/verify preserved by wire round trips (store round trip: see the solo part).
use crate::refvalid;
use crate::runner::{Ctx, Outcome, Part, PropDef};
use crate::tape::{fnv, Case, Tape};
use crate::world::World;
use consensus::{Block, ConsensusMessage, Timeout, Vote, QC, TC};
use crypto::{Digest, Hash as _, PublicKey, Signature};
use serde_json::json;

pub fn def() -> PropDef {
    let mut parts = vec![
        Part { name: "digest", cfg_len: 0, tape_max: 160, quick: 600_000, thorough: 30_000_000, max_shrink_iters: 1000, run: run_digest },
        Part { name: "roundtrip", cfg_len: 0, tape_max: 160, quick: 30_000, thorough: 1_000_000, max_shrink_iters: 500, run: run_roundtrip },
    ];
    parts.push(crate::props::solo_props::c20_part());
    PropDef {
        id: "C20",
        level: "exploration",
        rule: "proptest tape -> (digest) a Block/Vote/Timeout/QC with arbitrary field values and one single-field edit among those C20 names (block: author, round, payload element/insert/remove/reorder, digest moved across the payload/parent boundary, two fields' values swapped, parent; vote/QC: block hash, round; timeout: round, high-QC round): digests must differ, and must equal the digest recomputed independently from the fields; certificates that compare equal (==) must agree in block and round; crafted cross-kind attempts (vote/QC built from a timeout's or block's fields and vice versa): the three digest kinds never coincide. (roundtrip) validly signed messages of every kind (blocks with TC and >=2 payload digests included) through bincode alone and inside ConsensusMessage: same digest, verify still Ok, field-equal. (solo-store) a block processed by a real node is fetched back through SyncRequest and must be field-equal and still verify. Non-trivial: digest: every case (one named-field edit; distinct by base message+edit); roundtrip: block with TC or >=2 payload digests, or a certificate; solo-store: block with non-empty payload or TC fetched back.",
        assumptions: &[
            "SHA-512 collisions are not searched for; inequality of digests is compared on generated pairs",
            "the embedded TC and the QC's vote list are not covered by the block digest (only author, round, payload, parent are named by the property)",
        ],
        parts,
    }
}

fn digest_from(t: &mut Tape) -> Digest {
    // small alphabet so that swapped / moved digests can coincide with neighbours
    let mut d = [0u8; 32];
    match t.weighted(&[2, 2, 1]) {
        0 => {
            let b = t.bytes(32);
            d.copy_from_slice(&b);
        }
        1 => d[0] = t.below(4) as u8,
        _ => {}
    }
    Digest(d)
}

fn key_from(t: &mut Tape) -> PublicKey {
    let mut k = [0u8; 32];
    match t.weighted(&[2, 2]) {
        0 => {
            let b = t.bytes(32);
            k.copy_from_slice(&b);
        }
        _ => k[0] = t.below(4) as u8,
    }
    PublicKey(k)
}

fn round_from(t: &mut Tape) -> u64 {
    match t.weighted(&[3, 2, 1, 1]) {
        0 => t.range(0, 20),
        1 => t.u64(),
        2 => u64::MAX - t.range(0, 3),
        _ => 1u64 << t.range(0, 63),
    }
}

fn mk_block(author: PublicKey, round: u64, payload: Vec<Digest>, parent: Digest) -> Block {
    Block {
        qc: QC { hash: parent, round: 0, votes: Vec::new() },
        tc: None,
        author,
        round,
        payload,
        signature: Signature::default(),
    }
}

fn run_digest(case: &Case, _ctx: &Ctx) -> Outcome {
    let mut t = Tape::new(&case.tape);
    let mut out = Outcome::default();
    let kind = t.weighted(&[5, 2, 2, 2]);
    match kind {
        0 => {
            let author = key_from(&mut t);
            let round = round_from(&mut t);
            let np = t.range(0, 4) as usize;
            let payload: Vec<Digest> = (0..np).map(|_| digest_from(&mut t)).collect();
            let parent = digest_from(&mut t);
            let a = mk_block(author, round, payload.clone(), parent.clone());
            let mut edit = t.below(9);
            let mut b = a.clone();
            let what;
            loop {
                match edit {
                    0 => {
                        b.author.0[t.below(32)] ^= 1 << t.below(8);
                        what = "author";
                    }
                    1 => {
                        b.round ^= 1u64 << t.below(64);
                        what = "round";
                    }
                    2 => {
                        b.qc.hash.0[t.below(32)] ^= 1 << t.below(8);
                        what = "parent";
                    }
                    3 if np > 0 => {
                        let i = t.below(np);
                        b.payload[i].0[t.below(32)] ^= 1 << t.below(8);
                        what = "payload-element";
                    }
                    4 => {
                        let i = t.below(np + 1);
                        b.payload.insert(i, digest_from(&mut t));
                        what = "payload-insert";
                    }
                    5 if np > 0 => {
                        b.payload.remove(t.below(np));
                        what = "payload-remove";
                    }
                    6 if np > 0 => {
                        // move the last payload digest across the payload/parent boundary
                        let last = b.payload.pop().unwrap();
                        let old_parent = std::mem::replace(&mut b.qc.hash, last);
                        if t.chance(1, 2) {
                            b.payload.push(old_parent);
                            // this is a swap of the two adjacent values
                        }
                        what = "payload-parent-boundary";
                    }
                    7 if np > 1 => {
                        let i = t.below(np);
                        let j = t.below(np);
                        b.payload.swap(i, j);
                        what = "payload-reorder";
                    }
                    8 => {
                        // append the parent to the payload and use another parent
                        b.payload.push(b.qc.hash.clone());
                        b.qc.hash = digest_from(&mut t);
                        what = "parent-into-payload";
                    }
                    _ => {
                        edit = 0;
                        continue;
                    }
                }
                break;
            }
            let same_fields = a.author == b.author && a.round == b.round && a.payload == b.payload && a.qc.hash == b.qc.hash;
            let hist = json!({"kind": "block", "edit": what, "round": a.round, "payload_len": np, "a": format!("{:?}", a.digest()), "b": format!("{:?}", b.digest())});
            if !same_fields && a.digest() == b.digest() {
                out.violate(&format!("block-digest-ignores-{}", what), format!("blocks differing in {} have equal digests", what), hist.clone());
            }
            if same_fields && a.digest() != b.digest() {
                out.violate("block-digest-not-a-function-of-fields", "equal fields, different digests".into(), hist.clone());
            }
            if a.digest() != refvalid::block_digest(&a) {
                out.violate("block-digest-layout", "digest differs from H(author|round|payload..|parent)".into(), hist.clone());
            }
            // the QC's votes and the TC do not enter the identity of a block's named fields, but
            // the digest must stay a function of the named fields only: adding votes keeps it.
            out.class(&format!("block:{}", what));
            out.nontrivial = !same_fields;
            out.fingerprint = fnv(format!("b|{:?}|{}|{:?}|{:?}|{}", author.0, round, payload, parent, what).as_bytes());
            out.sample = hist;
            // cross-kind attempts
            cross_kind(&mut out, &a.digest(), "block", a.round, &a.qc.hash, &a.author);
        }
        1 | 2 => {
            let hash = digest_from(&mut t);
            let round = round_from(&mut t);
            let (h2, r2, what) = match t.below(3) {
                0 => {
                    let mut h = hash.clone();
                    h.0[t.below(32)] ^= 1 << t.below(8);
                    (h, round, "block")
                }
                1 => (hash.clone(), round ^ (1u64 << t.below(64)), "round"),
                _ => {
                    // swap the "values": round bytes into the hash and vice versa
                    let mut h = hash.clone();
                    h.0[..8].copy_from_slice(&round.to_le_bytes());
                    let mut rb = [0u8; 8];
                    rb.copy_from_slice(&hash.0[..8]);
                    (h, u64::from_le_bytes(rb), "swapped-values")
                }
            };
            let same = hash == h2 && round == r2;
            let (da, db, name) = if kind == 1 {
                let va = Vote { hash: hash.clone(), round, author: key_from(&mut t), signature: Signature::default() };
                let vb = Vote { hash: h2.clone(), round: r2, author: va.author, signature: Signature::default() };
                (va.digest(), vb.digest(), "vote")
            } else {
                let qa = QC { hash: hash.clone(), round, votes: Vec::new() };
                let qb = QC { hash: h2.clone(), round: r2, votes: Vec::new() };
                // identity: certificates that compare equal speak about the same block and round
                // (the code decides "is this the genesis certificate" by comparing certificates)
                if !same && qa == qb {
                    out.violate(&format!("qc-equality-ignores-{}", what), format!("certificates differing in {} compare equal although their digests differ", what), json!({"edit": what, "round": round, "round2": r2}));
                }
                if !(qa == qa.clone()) {
                    out.violate("qc-not-equal-to-itself", "a certificate does not compare equal to its copy".into(), json!({"round": round}));
                }
                (qa.digest(), qb.digest(), "qc")
            };
            let hist = json!({"kind": name, "edit": what, "round": round, "round2": r2});
            if !same && da == db {
                out.violate(&format!("{}-digest-ignores-{}", name, what), format!("{}s differing in {} have equal digests", name, what), hist.clone());
            }
            if da != refvalid::vote_digest(&hash, round) {
                out.violate(&format!("{}-digest-layout", name), "digest differs from H(block|round)".into(), hist.clone());
            }
            // a vote and the QC over the same (block, round) must share the digest: QC signatures are vote signatures
            let v = Vote { hash: hash.clone(), round, author: PublicKey::default(), signature: Signature::default() };
            let q = QC { hash: hash.clone(), round, votes: Vec::new() };
            if v.digest() != q.digest() {
                out.violate("vote-qc-digest-differ", "vote and QC for the same block and round have different digests".into(), hist.clone());
            }
            out.class(&format!("{}:{}", name, what));
            out.nontrivial = !same;
            out.fingerprint = fnv(format!("{}|{:?}|{}|{}", name, hash.0, round, what).as_bytes());
            out.sample = hist;
            cross_kind(&mut out, &da, name, round, &hash, &PublicKey::default());
        }
        _ => {
            let round = round_from(&mut t);
            let hq_round = round_from(&mut t);
            let hq_hash = digest_from(&mut t);
            let (r2, hr2, what) = match t.below(3) {
                0 => (round ^ (1u64 << t.below(64)), hq_round, "round"),
                1 => (round, hq_round ^ (1u64 << t.below(64)), "high-qc-round"),
                _ => (hq_round, round, "swapped-values"),
            };
            let mk = |r: u64, hr: u64| Timeout {
                high_qc: QC { hash: hq_hash.clone(), round: hr, votes: Vec::new() },
                round: r,
                author: PublicKey::default(),
                signature: Signature::default(),
            };
            let (a, b) = (mk(round, hq_round), mk(r2, hr2));
            let same = round == r2 && hq_round == hr2;
            let hist = json!({"kind": "timeout", "edit": what, "round": round, "high_qc_round": hq_round});
            if !same && a.digest() == b.digest() {
                out.violate(&format!("timeout-digest-ignores-{}", what), format!("timeouts differing in {} have equal digests", what), hist.clone());
            }
            if a.digest() != refvalid::timeout_digest(round, hq_round) {
                out.violate("timeout-digest-layout", "digest differs from H(round|high_qc.round)".into(), hist.clone());
            }
            out.class(&format!("timeout:{}", what));
            out.nontrivial = !same;
            out.fingerprint = fnv(format!("t|{}|{}|{}", round, hq_round, what).as_bytes());
            out.sample = hist;
            cross_kind(&mut out, &a.digest(), "timeout", round, &hq_hash, &PublicKey::default());
            // also: a timeout digest against a vote/QC built from its own numbers
            let mut h = Digest::default();
            h.0[..8].copy_from_slice(&round.to_le_bytes());
            let v = QC { hash: h, round: hq_round, votes: Vec::new() };
            if v.digest() == a.digest() {
                out.violate("timeout-digest-equals-qc-digest", "crafted QC has the digest of a timeout".into(), json!({"round": round, "high_qc_round": hq_round}));
            }
        }
    }
    out
}

/// Crafted attempts to make the digest of one kind coincide with another kind built from the same numbers.
fn cross_kind(out: &mut Outcome, d: &Digest, kind: &str, round: u64, hash: &Digest, author: &PublicKey) {
    let candidates: Vec<(&str, Digest)> = vec![
        ("vote", Vote { hash: hash.clone(), round, author: *author, signature: Signature::default() }.digest()),
        ("vote", Vote { hash: Digest::default(), round, author: *author, signature: Signature::default() }.digest()),
        ("qc", QC { hash: hash.clone(), round, votes: Vec::new() }.digest()),
        (
            "timeout",
            Timeout { high_qc: QC { hash: hash.clone(), round, votes: Vec::new() }, round, author: *author, signature: Signature::default() }.digest(),
        ),
        (
            "timeout",
            Timeout { high_qc: QC::genesis(), round, author: *author, signature: Signature::default() }.digest(),
        ),
        ("block", mk_block(*author, round, Vec::new(), hash.clone()).digest()),
        ("block", mk_block(PublicKey::default(), round, Vec::new(), Digest::default()).digest()),
        ("block", mk_block(PublicKey(hash.0), round, Vec::new(), Digest::default()).digest()),
    ];
    let class = |k: &str| match k {
        "vote" | "qc" => 1,
        "timeout" => 2,
        _ => 0,
    };
    for (k, cd) in candidates {
        if class(k) != class(kind) && &cd == d {
            out.violate(
                "digest-kinds-coincide",
                format!("a {} digest equals a crafted {} digest (round {})", kind, k, round),
                json!({"kind": kind, "other": k, "round": round}),
            );
        }
    }
}

/// Every field of a block in comparable form (signer lists as sorted sets).
pub fn shape(b: &Block) -> (Vec<u8>, u64, Vec<Vec<u8>>, (Vec<u8>, u64, Vec<Vec<u8>>), Option<(u64, Vec<Vec<u8>>)>, Vec<u8>) {
    let mut qv: Vec<Vec<u8>> = b.qc.votes.iter().map(|e| bincode::serialize(e).unwrap()).collect();
    qv.sort();
    let tc = b.tc.as_ref().map(|tc| {
        let mut tv: Vec<Vec<u8>> = tc.votes.iter().map(|e| bincode::serialize(e).unwrap()).collect();
        tv.sort();
        (tc.round, tv)
    });
    (
        b.author.0.to_vec(),
        b.round,
        b.payload.iter().map(|d| d.0.to_vec()).collect(),
        (b.qc.hash.0.to_vec(), b.qc.round, qv),
        tc,
        bincode::serialize(&b.signature).unwrap(),
    )
}

fn run_roundtrip(case: &Case, _ctx: &Ctx) -> Outcome {
    let mut t = Tape::new(&case.tape);
    let mut out = Outcome::default();
    let n = t.range(4, 7) as usize;
    let stakes = crate::world::stakes_profile(n, t.below(3) as u64, t.below(7) as u64);
    let w = World::new(&stakes, t.below(4) as u64);
    let all: Vec<usize> = (0..n).collect();
    let quorum = w.quorum_subset(&all).unwrap_or(all.clone());
    let round = t.range(2, 1000);
    let parent = w.block(w.leader(round - 1), round - 1, QC::genesis(), None, Vec::new());
    let qc = w.qc(&parent, &quorum);
    let np = t.range(0, 4) as usize;
    let payload: Vec<Digest> = (0..np).map(|_| digest_from(&mut t)).collect();
    let with_tc = t.chance(1, 2);
    let (b_round, tc) = if with_tc {
        let gap = t.range(1, 5);
        let r = round + gap;
        let entries: Vec<(usize, u64)> = quorum.iter().map(|i| (*i, t.range(0, round - 1))).collect();
        (r + 1, Some(w.tc(r, &entries)))
    } else {
        (round, None)
    };
    let block = w.block(w.leader(b_round), b_round, qc.clone(), tc.clone(), payload.clone());
    let vote = w.vote(t.below(n), &block);
    let timeout = w.timeout(t.below(n), b_round, qc.clone());
    let hist = json!({"n": n, "stakes": stakes, "block_round": b_round, "payload": np, "tc": with_tc});

    macro_rules! rt {
        ($name:expr, $val:expr, $ty:ty, $wrap:expr, $unwrap:pat => $inner:expr, $digest:expr, $verify:expr) => {{
            let bytes = bincode::serialize(&$val).unwrap();
            match bincode::deserialize::<$ty>(&bytes) {
                Ok(back) => {
                    if $digest(&back) != $digest(&$val) {
                        out.violate(concat!($name, "-roundtrip-digest"), "digest changed through bincode".into(), hist.clone());
                    }
                    if $verify(&$val).is_ok() && $verify(&back).is_err() {
                        out.violate(concat!($name, "-roundtrip-verify"), "valid message no longer verifies after bincode".into(), hist.clone());
                    }
                    if bincode::serialize(&back).unwrap() != bytes {
                        out.violate(concat!($name, "-roundtrip-fields"), "re-serialisation differs".into(), hist.clone());
                    }
                }
                Err(e) => out.violate(concat!($name, "-roundtrip-decode"), format!("does not decode: {}", e), hist.clone()),
            }
            let wire = bincode::serialize(&$wrap).unwrap();
            match bincode::deserialize::<ConsensusMessage>(&wire) {
                Ok($unwrap) => {
                    let back = $inner;
                    if $digest(&back) != $digest(&$val) {
                        out.violate(concat!($name, "-wire-digest"), "digest changed through ConsensusMessage".into(), hist.clone());
                    }
                    if $verify(&$val).is_ok() && $verify(&back).is_err() {
                        out.violate(concat!($name, "-wire-verify"), "valid message no longer verifies after the wire".into(), hist.clone());
                    }
                }
                Ok(_) => out.violate(concat!($name, "-wire-kind"), "decoded as another message kind".into(), hist.clone()),
                Err(e) => out.violate(concat!($name, "-wire-decode"), format!("does not decode: {}", e), hist.clone()),
            }
            if $verify(&$val).is_err() {
                out.violate(concat!($name, "-valid-rejected"), "validly signed message rejected before any round trip".into(), hist.clone());
            }
        }};
    }
    let com = &w.ccom;
    rt!("block", block, Block, ConsensusMessage::Propose(block.clone()), ConsensusMessage::Propose(b) => b,
        |b: &Block| b.digest(), |b: &Block| b.verify(com));
    // the block read back is the same message, not merely one with the same digest: every field that the
    // digest does not cover (certificates, signature) must survive too (signer lists compared as sets)
    {
        let want = shape(&block);
        let direct: Option<Block> = bincode::deserialize(&bincode::serialize(&block).unwrap()).ok();
        let wire: Option<Block> = match bincode::deserialize(&bincode::serialize(&ConsensusMessage::Propose(block.clone())).unwrap()) {
            Ok(ConsensusMessage::Propose(b)) => Some(b),
            _ => None,
        };
        for (how, back) in [("store encoding", direct), ("wire", wire)] {
            if let Some(back) = back {
                let got = shape(&back);
                if got != want {
                    let what = if got.4 != want.4 {
                        "timeout certificate"
                    } else if got.3 != want.3 {
                        "quorum certificate"
                    } else if got.5 != want.5 {
                        "signature"
                    } else {
                        "author/round/payload"
                    };
                    out.violate("block-roundtrip-loses-field", format!("block read back through the {} differs in its {}", how, what), hist.clone());
                }
            }
        }
    }
    rt!("vote", vote, Vote, ConsensusMessage::Vote(vote.clone()), ConsensusMessage::Vote(v) => v,
        |v: &Vote| v.digest(), |v: &Vote| v.verify(com));
    rt!("timeout", timeout, Timeout, ConsensusMessage::Timeout(timeout.clone()), ConsensusMessage::Timeout(x) => x,
        |x: &Timeout| x.digest(), |x: &Timeout| x.verify(com));
    if let Some(tc) = &tc {
        rt!("tc", tc.clone(), TC, ConsensusMessage::TC(tc.clone()), ConsensusMessage::TC(x) => x,
            |x: &TC| fnv(&bincode::serialize(x).unwrap()), |x: &TC| x.verify(com));
    }
    {
        let bytes = bincode::serialize(&qc).unwrap();
        match bincode::deserialize::<QC>(&bytes) {
            Ok(back) => {
                if back.digest() != qc.digest() || back.verify(com).is_err() {
                    out.violate("qc-roundtrip", "QC digest/verify changed through bincode".into(), hist.clone());
                }
            }
            Err(e) => out.violate("qc-roundtrip-decode", format!("{}", e), hist.clone()),
        }
    }
    out.nontrivial = with_tc || np >= 2;
    if with_tc {
        out.class("block-with-tc");
    }
    if np >= 2 {
        out.class("payload>=2");
    }
    out.fingerprint = fnv(format!("{:?}|{}|{}|{:?}", stakes, b_round, with_tc, payload).as_bytes());
    out.sample = hist;
    out
}
