//! C19 — certificate assembly (component part: the real `Aggregator` against a reference accumulator).
use crate::refvalid;
use crate::runner::{Ctx, Outcome, Part, PropDef};
use crate::tape::{fnv, Case, Tape};
use crate::world::World;
use consensus::{Aggregator, ConsensusError, QC};
use crypto::{Digest, Hash as _};
use serde_json::{json, Value};
use std::collections::{BTreeMap, BTreeSet};

pub fn def() -> PropDef {
    let mut parts = vec![Part {
        name: "aggregator",
        cfg_len: 0,
        tape_max: 220,
        quick: 120_000,
        thorough: 5_000_000,
        max_shrink_iters: 1500,
        run: run_aggregator,
    }];
    parts.push(crate::props::solo_props::c19_part());
    PropDef {
        id: "C19",
        level: "exploration",
        rule: "proptest tape -> (aggregator) committee of 4..7 with equal or unequal stakes; op sequence of add_vote / add_timeout / cleanup over 1..3 rounds x 1..3 blocks with duplicates, conflicting votes of one author, stale and future rounds (only signature-valid member-authored items, and never a round below the last cleanup, as Core guarantees); reference accumulator per (round,digest) / per round: a certificate is returned exactly at the operation where distinct-author stake first reaches q, never earlier, never twice; duplicates are refused; signers distinct and a subset of that key's voters; certificate passes the repo's verify and the independent ref_valid; TC entries carry each signer's reported high-QC round. (solo) the same arrival patterns sent to a real node that is the next leader: every QC inside its proposals and every TC it broadcasts is ref_valid and backed by quorum-many matching items delivered before (plus its own); at most one TC per round. Non-trivial: threshold crossed with a duplicate or conflicting vote present before the crossing, or under unequal stakes; distinct by op-sequence hash.",
        assumptions: &[
            "votes and timeouts fed to the Aggregator directly are signature-valid and member-authored, as Core::handle_vote/handle_timeout guarantee",
            "no item for a round below the last cleanup is added (Core drops stale rounds before the aggregator)",
        ],
        parts,
    }
}

#[derive(Default)]
struct RefAcc {
    voters: BTreeSet<usize>,
    weight: u64,
    made: bool,
}

fn run_aggregator(case: &Case, _ctx: &Ctx) -> Outcome {
    let mut t = Tape::new(&case.tape);
    let mut out = Outcome::default();
    let n = t.range(4, 7) as usize;
    let profile = t.below(4) as u64;
    let stakes = crate::world::stakes_profile(n, profile, t.below(5) as u64);
    let w = World::new(&stakes, t.below(3) as u64);
    let q = w.quorum();
    let mut agg = Aggregator::new(w.ccom.clone());
    let base_round = t.range(1, 50);
    let nrounds = t.range(1, 3);
    let nblocks = t.range(1, 3) as usize;
    let blocks: Vec<Digest> = (0..nblocks).map(|i| crate::world::sha512_32(&[i as u8, 0xB1])).collect();
    let mut votes_ref: BTreeMap<(u64, usize), RefAcc> = BTreeMap::new();
    let mut touts_ref: BTreeMap<u64, (RefAcc, BTreeMap<usize, u64>)> = BTreeMap::new();
    let mut floor = 0u64; // rounds below this were cleaned up
    let mut ops: Vec<Value> = Vec::new();
    let mut crossed_with_noise = false;
    let mut noise_rounds: BTreeSet<u64> = BTreeSet::new();
    let nops = t.range(3, 40);
    let mut certs = 0;
    for _ in 0..nops {
        let op = t.weighted(&[6, 4, 1]);
        match op {
            0 => {
                let round = (base_round + t.range(0, nrounds - 1)).max(floor);
                let bi = t.below(nblocks);
                let author = t.below(n);
                let vote = w.vote_for(author, blocks[bi].clone(), round);
                let acc = votes_ref.entry((round, bi)).or_default();
                let dup = acc.voters.contains(&author);
                // conflicting vote of this author for another block of the round?
                let conflicting = (0..nblocks).any(|b| b != bi && votes_ref.get(&(round, b)).map_or(false, |a| a.voters.contains(&author)));
                if dup || conflicting {
                    noise_rounds.insert(round);
                }
                let acc = votes_ref.entry((round, bi)).or_default();
                let res = agg.add_vote(vote);
                ops.push(json!({"op": "vote", "round": round, "block": bi, "author": author, "dup": dup}));
                let hist = || json!({"n": n, "stakes": stakes, "q": q, "ops": ops});
                if dup {
                    match res {
                        Err(ConsensusError::AuthorityReuse(_)) => {}
                        Err(e) => out.violate("duplicate-vote-wrong-error", format!("{}", e), hist()),
                        Ok(Some(_)) => out.violate("qc-from-duplicate-vote", format!("duplicate vote of {} produced a QC", author), hist()),
                        Ok(None) => out.violate("duplicate-vote-accepted", format!("duplicate vote of {} accepted", author), hist()),
                    }
                    continue;
                }
                acc.voters.insert(author);
                acc.weight += stakes[author] as u64;
                let expect = acc.weight >= q && !acc.made;
                match res {
                    Ok(Some(qc)) => {
                        certs += 1;
                        if !expect {
                            let sig = if acc.made { "qc-made-twice" } else { "qc-before-quorum" };
                            out.violate(sig, format!("QC returned with reference weight {} (q={}, made={})", acc.weight, q, acc.made), hist());
                        }
                        acc.made = true;
                        if noise_rounds.contains(&round) || profile != 0 {
                            crossed_with_noise = true;
                        }
                        if qc.hash != blocks[bi] || qc.round != round {
                            out.violate("qc-for-wrong-block-or-round", format!("QC({:?},{}) for votes on block {} round {}", qc.hash, qc.round, bi, round), hist());
                        }
                        let mut signers = BTreeSet::new();
                        for (k, _) in &qc.votes {
                            match w.index_of(k) {
                                Some(i) if acc.voters.contains(&i) => {
                                    if !signers.insert(i) {
                                        out.violate("qc-repeats-signer", format!("signer {} twice", i), hist());
                                    }
                                }
                                _ => out.violate("qc-signer-not-a-voter", "QC contains a signer that did not vote for this block and round".into(), hist()),
                            }
                        }
                        if qc.verify(&w.ccom).is_err() {
                            out.violate("assembled-qc-fails-verify", "assembled QC rejected by QC::verify".into(), hist());
                        }
                        if let Err(e) = refvalid::ref_qc(&w, &qc) {
                            out.violate("assembled-qc-not-ref-valid", format!("assembled QC rejected by the reference predicate: {:?}", e), hist());
                        }
                    }
                    Ok(None) => {
                        if expect {
                            out.violate("qc-not-made-at-quorum", format!("reference weight {} >= q {} but no QC returned", acc.weight, q), hist());
                            acc.made = true; // avoid cascading reports
                        }
                    }
                    Err(e) => out.violate("fresh-vote-refused", format!("first vote of {} for (round {}, block {}) refused: {}", author, round, bi, e), hist()),
                }
            }
            1 => {
                let round = (base_round + t.range(0, nrounds - 1)).max(floor);
                let author = t.below(n);
                let hq_round = t.range(0, round.saturating_sub(1));
                let high_qc = if hq_round == 0 {
                    QC::genesis()
                } else {
                    let all: Vec<usize> = (0..n).collect();
                    w.qc_for(crate::world::sha512_32(&hq_round.to_le_bytes()), hq_round, &w.quorum_subset(&all).unwrap())
                };
                let timeout = w.timeout(author, round, high_qc);
                let (acc, reported) = touts_ref.entry(round).or_default();
                let dup = acc.voters.contains(&author);
                if dup {
                    noise_rounds.insert(round);
                }
                let res = agg.add_timeout(timeout);
                ops.push(json!({"op": "timeout", "round": round, "author": author, "high_qc_round": hq_round, "dup": dup}));
                let hist = || json!({"n": n, "stakes": stakes, "q": q, "ops": ops});
                if dup {
                    match res {
                        Err(ConsensusError::AuthorityReuse(_)) => {}
                        Err(e) => out.violate("duplicate-timeout-wrong-error", format!("{}", e), hist()),
                        Ok(Some(_)) => out.violate("tc-from-duplicate-timeout", format!("duplicate timeout of {} produced a TC", author), hist()),
                        Ok(None) => out.violate("duplicate-timeout-accepted", format!("duplicate timeout of {} accepted", author), hist()),
                    }
                    continue;
                }
                acc.voters.insert(author);
                acc.weight += stakes[author] as u64;
                reported.insert(author, hq_round);
                let expect = acc.weight >= q && !acc.made;
                match res {
                    Ok(Some(tc)) => {
                        certs += 1;
                        if !expect {
                            let sig = if acc.made { "tc-made-twice" } else { "tc-before-quorum" };
                            out.violate(sig, format!("TC returned with reference weight {} (q={}, made={})", acc.weight, q, acc.made), hist());
                        }
                        acc.made = true;
                        if noise_rounds.contains(&round) || profile != 0 {
                            crossed_with_noise = true;
                        }
                        if tc.round != round {
                            out.violate("tc-for-wrong-round", format!("TC round {} for timeouts of round {}", tc.round, round), hist());
                        }
                        let mut signers = BTreeSet::new();
                        for (k, _, hr) in &tc.votes {
                            match w.index_of(k) {
                                Some(i) if acc.voters.contains(&i) => {
                                    if !signers.insert(i) {
                                        out.violate("tc-repeats-signer", format!("signer {} twice", i), hist());
                                    }
                                    if reported.get(&i) != Some(hr) {
                                        out.violate("tc-high-qc-round-mismatch", format!("signer {} reported {:?} but the TC says {}", i, reported.get(&i), hr), hist());
                                    }
                                }
                                _ => out.violate("tc-signer-not-a-timeout-author", "TC contains a signer that sent no timeout for this round".into(), hist()),
                            }
                        }
                        if tc.verify(&w.ccom).is_err() {
                            out.violate("assembled-tc-fails-verify", "assembled TC rejected by TC::verify".into(), hist());
                        }
                        if let Err(e) = refvalid::ref_tc(&w, &tc) {
                            out.violate("assembled-tc-not-ref-valid", format!("assembled TC rejected by the reference predicate: {:?}", e), hist());
                        }
                    }
                    Ok(None) => {
                        if expect {
                            out.violate("tc-not-made-at-quorum", format!("reference weight {} >= q {} but no TC returned", acc.weight, q), hist());
                            acc.made = true;
                        }
                    }
                    Err(e) => out.violate("fresh-timeout-refused", format!("first timeout of {} for round {} refused: {}", author, round, e), hist()),
                }
            }
            _ => {
                // cleanup at a round for which a certificate exists (as Core does after advancing)
                let r = base_round + t.range(0, nrounds);
                if r > floor {
                    floor = r;
                    agg.cleanup(&r);
                    votes_ref.retain(|(round, _), _| *round >= r);
                    touts_ref.retain(|round, _| *round >= r);
                    ops.push(json!({"op": "cleanup", "round": r}));
                }
            }
        }
    }
    if certs > 0 {
        out.class("certificate-made");
    }
    if crossed_with_noise {
        out.class("crossed-with-duplicates-or-unequal-stakes");
    }
    out.class(&format!("stakes-profile={}", profile));
    out.nontrivial = crossed_with_noise;
    out.fingerprint = fnv(serde_json::to_string(&ops).unwrap().as_bytes()) ^ fnv(format!("{:?}", stakes).as_bytes());
    let shown: Vec<Value> = ops.iter().take(30).cloned().collect();
    out.sample = json!({"n": n, "stakes": stakes, "q": q, "ops": shown, "certificates": certs});
    out
}
