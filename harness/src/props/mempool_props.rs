//! C11 (batching) and C12 (quorum before proposing an own batch): the real `Mempool::spawn` with
//! harness-played peers and clients on the in-memory transport.
use crate::runner::{Ctx, Outcome, Part, PropDef};
use crate::sim::{self, log, ms, us, Ev, Event, RigPolicy};
use crate::tape::{cfg_range, fnv, Case, Tape};
use crate::world::{addr, node_of_port, port_kind, sha512_32, PortKind, World, MEMPOOL_PORT, TX_PORT};
use bytes::Bytes;
use futures::{SinkExt, StreamExt};
use mempool::{Mempool, MempoolMessage, Parameters};
use network::simnet::{self, ConnectDecision, FrameDecision, TcpListener, TcpStream};
use serde_json::{json, Value};
use std::collections::{BTreeMap, HashMap};
use std::sync::{Arc, Mutex};
use store::Store;
use tokio::sync::mpsc::channel;
use tokio_util::codec::{Framed, LengthDelimitedCodec};

const CFG_LEN: usize = 8;
/// gap marker: deliver the transaction exactly when the seal timer expires next
const ALIGN_TO_TICK: u64 = u64::MAX;

pub fn c11_def() -> PropDef {
    PropDef {
        id: "C11",
        level: "exploration",
        rule: "proptest cfg (committee 4..6, batch_size 1..4000 with small values emphasised, max_batch_delay 1..200 ms, scheduler seed) + tape -> the real Mempool::spawn on the in-memory transport with peers that acknowledge at once; 1..3 client connections submit 1..40 transactions with sizes from {0,1,3,8,9,B-1,B,B+1,2B,5B,random}, first byte 0 or not, in one case of five all with identical bytes (so that batches sealed by size are byte-identical), inter-arrival gaps around the seal timer (0, <delay, =delay, >delay, and arrival exactly in the instant the timer expires next); peers' batches (also with trailing bytes after a valid encoding) are sent to its mempool port; run in the default build and in the build with the benchmark feature. Oracle: every peer receives the same sequence of batch frames; the multiset of transactions in all batches equals the multiset submitted and each client's identifiable transactions keep their order; size rule (the batch without its last transaction is below batch_size; a batch reaching batch_size is emitted in the instant its last transaction was delivered); timer rule (no transaction waits longer than max_batch_delay); every own and received batch is stored under, and announced to consensus as, SHA-512/256 of its exact frame bytes. (realtime-burst) the same component on the real clock: 8..32 client connections flood tiny transactions while a 1..3 ms seal timer keeps expiring, so that transactions are taken from the channel in the very poll in which the timer fires (virtual time cannot produce this: its clock only advances when every task is idle); oracle: nothing lost, duplicated or reordered per client. Non-trivial: >= 2 batches with both seal triggers, or an empty transaction, or a transaction >= batch_size; distinct by (parameters, size/gap sequence) hash.",
        assumptions: &[
            "a transaction delivered exactly on a timer tick may go into either batch (both accepted)",
            "peers acknowledge immediately (acknowledgement patterns are C12's domain)",
        ],
        parts: vec![
            Part { name: "batching", cfg_len: CFG_LEN, tape_max: 200, quick: 20_000, thorough: 500_000, max_shrink_iters: 300, run: c11_run },
            Part { name: "realtime-burst", cfg_len: 2, tape_max: 40, quick: 96, thorough: 2_000, max_shrink_iters: 4, run: c11_realtime },
        ],
    }
}

pub fn c12_def() -> PropDef {
    PropDef {
        id: "C12",
        level: "exploration",
        rule: "proptest cfg (committee 4..7, stake profile incl. one dominant peer / dominant node, batch parameters, scheduler seed) + tape -> the real Mempool::spawn with harness-played peers; 1..5 own batches are produced by client transactions; per (peer, received batch frame) the tape decides: acknowledge at once / after 1..300 ms / never; 0..2 connections between the node and a peer are reset at tape-chosen instants (the reliable sender reconnects and retransmits). Oracle: an own batch b is released (written to the node's store under its digest and its digest handed to consensus) at log position T only if stake(node) + sum of stake of the peers whose acknowledgement for b (FIFO pairing per connection: k-th reply frame <-> k-th frame sent on that connection) was delivered to the node before T reaches floor(2N/3)+1. The converse (released once enough acknowledgements arrived) is measured for non-vacuity, not asserted. Non-trivial: a batch was withheld for a positive time while a sub-quorum set of acknowledgements was outstanding, or was never released because a quorum never acknowledged; distinct by (stakes, ack plan) hash.",
        assumptions: &[
            "FIFO pairing of replies is per connection (k-th reply frame on a connection answers the k-th frame written on it); a reset loses the frames in flight on that connection",
        ],
        parts: vec![
            Part { name: "quorum-wait", cfg_len: CFG_LEN, tape_max: 160, quick: 30_000, thorough: 800_000, max_shrink_iters: 300, run: c12_run },
        ],
    }
}

#[derive(Clone, Debug)]
enum AckPlan {
    Now,
    After(u64),
    Never,
}

struct MpRun {
    w: World,
    sut: usize,
    log: Vec<Event>,
    /// frames each peer received on its mempool port: (peer, bytes, t_us)
    peer_frames: Vec<(usize, Vec<u8>, u64)>,
    submitted: Vec<(usize, Vec<u8>)>,
    received_sent: Vec<Vec<u8>>,
    panics: Vec<sim::PanicRec>,
    batch_size: usize,
    max_batch_delay: u64,
    script: Vec<Value>,
}

struct MpPlan {
    /// client transactions: (client, bytes, gap before in us)
    txs: Vec<(usize, Vec<u8>, u64)>,
    /// batches "received" from peers: (peer, frame bytes, send after tx index)
    received: Vec<(usize, Vec<u8>, usize)>,
    /// per peer, per frame index: ack plan
    acks: HashMap<(usize, usize), AckPlan>,
    /// connections of the node to a peer's mempool port that are reset at the given instant (ms)
    cuts: Vec<(usize, u64)>,
    horizon_ms: u64,
}

fn run_mempool(w: &World, sut: usize, batch_size: usize, max_batch_delay: u64, rt_seed: u64, plan: MpPlan) -> MpRun {
    let dir = sim::scratch_dir("mp");
    let _g = sim::ScratchGuard(dir.clone());
    let peer_frames: Arc<Mutex<Vec<(usize, Vec<u8>, u64)>>> = Arc::new(Mutex::new(Vec::new()));
    let pf = peer_frames.clone();
    let acks = Arc::new(plan.acks.clone());
    let txs = plan.txs.clone();
    let received = plan.received.clone();
    let horizon = plan.horizon_ms;
    let cuts = plan.cuts.clone();
    let sut_id = sut as u32 + 1;
    let script: Vec<Value> = Vec::new();
    sim::run_sim(rt_seed ^ 0x3e3e, || async {
        simnet::install(Box::new(RigPolicy {
            on_connect: Box::new(|_, _| ConnectDecision::Accept(us(0))),
            on_frame: Box::new(|_, _| FrameDecision::Deliver(ms(1))),
            on_delivered: None,
        }));
        // peers
        for p in (0..w.n).filter(|p| *p != sut) {
            let listener = TcpListener::bind(&addr(MEMPOOL_PORT + p as u16)).await.expect("bind peer");
            let pf = pf.clone();
            let acks = acks.clone();
            simnet::set_current_node(p as u32 + 1);
            tokio::spawn(async move {
                let counter = Arc::new(Mutex::new(0usize));
                loop {
                    let (socket, _) = match listener.accept().await {
                        Ok(x) => x,
                        Err(_) => continue,
                    };
                    let pf = pf.clone();
                    let acks = acks.clone();
                    let counter = counter.clone();
                    tokio::spawn(async move {
                        let (mut writer, mut reader) = Framed::new(socket, LengthDelimitedCodec::new()).split();
                        // replies are written by one task in the order their delays expire
                        let (tx_ack, mut rx_ack) = tokio::sync::mpsc::unbounded_channel::<()>();
                        tokio::spawn(async move {
                            while rx_ack.recv().await.is_some() {
                                if writer.send(Bytes::from("Ack")).await.is_err() {
                                    break;
                                }
                            }
                        });
                        while let Some(Ok(frame)) = reader.next().await {
                            let idx = {
                                let mut c = counter.lock().unwrap();
                                let i = *c;
                                *c += 1;
                                i
                            };
                            pf.lock().unwrap().push((p, frame.to_vec(), sim::now_us()));
                            match acks.get(&(p, idx)).cloned().unwrap_or(AckPlan::Now) {
                                AckPlan::Now => {
                                    let _ = tx_ack.send(());
                                }
                                AckPlan::After(d) => {
                                    let tx_ack = tx_ack.clone();
                                    tokio::spawn(async move {
                                        tokio::time::sleep(ms(d)).await;
                                        let _ = tx_ack.send(());
                                    });
                                }
                                AckPlan::Never => {}
                            }
                        }
                    });
                }
            });
            simnet::set_current_node(0);
        }
        // the node under test
        simnet::set_current_node(sut_id);
        let store = Store::new(&format!("{}/db", dir)).expect("store");
        let (_tx_c2m, rx_c2m) = channel(1000);
        let (tx_m2c, mut rx_m2c) = channel(1000);
        Mempool::spawn(
            w.pk(sut),
            w.mcom.clone(),
            Parameters { gc_depth: 50, sync_retry_delay: 5_000, sync_retry_nodes: 3, batch_size, max_batch_delay },
            store,
            rx_c2m,
            tx_m2c,
        );
        simnet::set_current_node(0);
        tokio::spawn(async move {
            while let Some(d) = rx_m2c.recv().await {
                log(Ev::Digest { node: sut_id, digest: d.to_vec() });
            }
        });
        for (peer, at) in cuts.clone() {
            tokio::spawn(async move {
                tokio::time::sleep(ms(at)).await;
                let port = MEMPOOL_PORT + peer as u16;
                simnet::cut_where(|_, src, p| src == sut_id && p == port);
            });
        }
        tokio::time::sleep(ms(2)).await;
        // clients
        let mut clients: HashMap<usize, Framed<TcpStream, LengthDelimitedCodec>> = HashMap::new();
        let mut peer_conns: HashMap<usize, Framed<TcpStream, LengthDelimitedCodec>> = HashMap::new();
        for (i, (client, bytes, gap)) in txs.iter().enumerate() {
            if *gap == ALIGN_TO_TICK {
                // arrive exactly on the next expiry of the seal timer: it was last re-armed when the
                // node wrote its latest batch frame (or when it started)
                let now = sim::now_us();
                let last_seal = sim::with_log(|l| {
                    l.iter()
                        .rev()
                        .find_map(|e| match &e.ev {
                            Ev::Sent { info, bytes, .. } if info.writer_node == sut_id && info.forward && port_kind(info.dst_port) == PortKind::Mempool && decode_batch(bytes).is_some() => Some(e.t_us),
                            _ => None,
                        })
                        .unwrap_or(0)
                });
                let d = max_batch_delay * 1000;
                let mut tick = last_seal + d;
                while tick < now + 1_000 {
                    tick += d;
                }
                tokio::time::sleep(us(tick - 1_000 - now)).await;
            } else if *gap > 0 {
                tokio::time::sleep(us(*gap)).await;
            }
            if !clients.contains_key(client) {
                simnet::set_current_node(100 + *client as u32);
                if let Ok(s) = TcpStream::connect(addr(TX_PORT + sut as u16)).await {
                    clients.insert(*client, Framed::new(s, LengthDelimitedCodec::builder().max_frame_length(64 << 20).new_codec()));
                }
                simnet::set_current_node(0);
            }
            if let Some(f) = clients.get_mut(client) {
                simnet::set_current_node(100 + *client as u32);
                let _ = f.send(Bytes::from(bytes.clone())).await;
                simnet::set_current_node(0);
            }
            for (peer, frame, after) in &received {
                if *after == i {
                    if !peer_conns.contains_key(peer) {
                        simnet::set_current_node(*peer as u32 + 1);
                        if let Ok(s) = TcpStream::connect(addr(MEMPOOL_PORT + sut as u16)).await {
                            peer_conns.insert(*peer, Framed::new(s, LengthDelimitedCodec::builder().max_frame_length(64 << 20).new_codec()));
                        }
                        simnet::set_current_node(0);
                    }
                    if let Some(f) = peer_conns.get_mut(peer) {
                        simnet::set_current_node(*peer as u32 + 1);
                        let _ = f.send(Bytes::from(frame.clone())).await;
                        simnet::set_current_node(0);
                    }
                }
            }
        }
        tokio::time::sleep(ms(horizon)).await;
    });
    let log = sim::take_log();
    let frames = peer_frames.lock().unwrap().clone();
    MpRun {
        w: World::new(&w.stakes, 0),
        sut,
        log,
        peer_frames: frames,
        submitted: plan.txs.iter().map(|(c, b, _)| (*c, b.clone())).collect(),
        received_sent: plan.received.iter().map(|(_, b, _)| b.clone()).collect(),
        panics: sim::panics(),
        batch_size,
        max_batch_delay,
        script,
    }
}

fn gen_params(case: &Case) -> (usize, Vec<u32>, usize, usize, u64, u64) {
    let n = cfg_range(&case.cfg, 0, 4, 6) as usize;
    let profile = cfg_range(&case.cfg, 1, 0, 3);
    let salt = cfg_range(&case.cfg, 2, 0, 5);
    let stakes = crate::world::stakes_profile(n, profile, salt);
    let sut = cfg_range(&case.cfg, 3, 0, n as u64 - 1) as usize;
    let bs_class = cfg_range(&case.cfg, 4, 0, 5);
    let batch_size = match bs_class {
        0 => 1,
        1 => cfg_range(&case.cfg, 5, 2, 20) as usize,
        2 => cfg_range(&case.cfg, 5, 21, 200) as usize,
        3 => cfg_range(&case.cfg, 5, 201, 4000) as usize,
        4 => 9,
        _ => 100,
    };
    let delay = match cfg_range(&case.cfg, 6, 0, 3) {
        0 => cfg_range(&case.cfg, 7, 1, 5),
        1 => cfg_range(&case.cfg, 7, 6, 50),
        2 => cfg_range(&case.cfg, 7, 51, 200),
        _ => 20,
    };
    let rt_seed = case.cfg.get(7).copied().unwrap_or(0) as u64;
    (n, stakes, sut, batch_size, delay, rt_seed)
}

fn decode_batch(bytes: &[u8]) -> Option<Vec<Vec<u8>>> {
    match bincode::deserialize::<MempoolMessage>(bytes) {
        Ok(MempoolMessage::Batch(b)) => Some(b),
        _ => None,
    }
}

fn c11_run(case: &Case, _ctx: &Ctx) -> Outcome {
    let (n, stakes, sut, batch_size, delay, rt_seed) = gen_params(case);
    let w = World::new(&stakes, 0);
    let mut t = Tape::new(&case.tape);
    let nclients = 1 + t.weighted(&[3, 1, 1]);
    let ntx = t.range(1, 40) as usize;
    let b = batch_size;
    // repeated contents (one case in five): every transaction has the same bytes, so that batches
    // sealed by size are byte-identical (same digest); each of them is still a batch of its own
    let repeat = t.chance(1, 5);
    let repeat_len = *t.pick(&[(b / 2).max(1), b, b / 3 + 1, 8, 1, 0]);
    let repeat_fill = if t.chance(1, 2) { 0u8 } else { 7 };
    let mut txs = Vec::new();
    let mut seqs = vec![0u16; nclients];
    let mut script = Vec::new();
    let mut has_empty = false;
    let mut has_big = false;
    for _ in 0..ntx {
        let client = t.below(nclients);
        let len = match t.weighted(&[3, 2, 2, 2, 2, 2, 1, 1, 1, 3]) {
            0 => t.range(4, 30) as usize,
            1 => 0,
            2 => *t.pick(&[1usize, 3, 8, 9]),
            3 => b.saturating_sub(1),
            4 => b,
            5 => b + 1,
            6 => 2 * b,
            7 => 5 * b,
            8 => t.range(0, 3) as usize,
            _ => t.range(0, (b / 2).max(1) as u64) as usize,
        };
        let first = if t.chance(1, 2) { 0u8 } else { 1 + t.below(255) as u8 };
        let (len, first) = if repeat { (repeat_len, repeat_fill) } else { (len, first) };
        let mut tx = vec![if repeat { repeat_fill } else { 0u8 }; len];
        if len > 0 {
            tx[0] = first;
        }
        // identifiable transactions: [first][0xC1][client][seq hi][seq lo]...
        if len >= 5 && !repeat {
            tx[1] = 0xC1;
            tx[2] = client as u8;
            tx[3..5].copy_from_slice(&seqs[client].to_be_bytes());
            seqs[client] += 1;
            for (k, x) in tx.iter_mut().enumerate().skip(5) {
                *x = (k as u8).wrapping_mul(31);
            }
        }
        if len == 0 {
            has_empty = true;
        }
        if len >= b {
            has_big = true;
        }
        let gap_us = match t.weighted(&[4, 3, 1, 1, 1, 3]) {
            0 => 0,
            1 => t.range(1, delay * 1000 / 2),
            2 => delay * 1000,
            3 => delay * 1000 + t.range(1, 3000),
            4 => delay * 1000 - t.range(0, 1).min(delay * 1000),
            _ => ALIGN_TO_TICK,
        };
        script.push(json!({"client": client, "len": len, "first": first, "gap_us": if gap_us == ALIGN_TO_TICK { json!("exactly-on-next-timer-expiry") } else { json!(gap_us) }}));
        txs.push((client, tx, gap_us));
    }
    // batches received from peers, some with trailing bytes after a valid encoding
    let nrecv = t.weighted(&[2, 2, 1]);
    let mut received = Vec::new();
    let peers: Vec<usize> = (0..n).filter(|p| *p != sut).collect();
    for r in 0..nrecv {
        let peer = *t.pick(&peers);
        let k = t.below(3);
        let batch: Vec<Vec<u8>> = (0..k).map(|j| vec![0xEE, r as u8, j as u8, 1, 2, 3]).collect();
        let mut frame = bincode::serialize(&MempoolMessage::Batch(batch)).unwrap();
        if t.chance(1, 3) {
            let extra = 1 + t.below(6);
            frame.extend(t.bytes(extra));
        }
        received.push((peer, frame, t.below(ntx)));
    }
    let plan = MpPlan { txs, received, acks: HashMap::new(), cuts: Vec::new(), horizon_ms: 2 * delay + 20 };
    let run = run_mempool(&w, sut, batch_size, delay, rt_seed, plan);
    let mut out = Outcome::default();
    let sut_id = sut as u32 + 1;
    let hist = |extra: Value| json!({"n": n, "stakes": stakes, "sut": sut, "batch_size": batch_size, "max_batch_delay_ms": delay, "transactions": script, "detail": extra,
        "panics": run.panics.iter().map(|p| format!("{} {}", p.location, p.message)).collect::<Vec<_>>()});
    out.sample = json!({"n": n, "batch_size": batch_size, "max_batch_delay_ms": delay, "clients": nclients, "transactions": script.iter().take(12).cloned().collect::<Vec<_>>(), "transactions_total": ntx, "received_batches": nrecv, "build": crate::runner::build_name()});
    out.fingerprint = fnv(format!("{}|{}|{:?}", batch_size, delay, script).as_bytes());
    for p in &run.panics {
        if p.node == sut_id {
            out.violate(&format!("panic@{}", p.location), format!("the mempool panicked at {}: {}", p.location, p.message), hist(json!(null)));
        }
    }
    if !out.violations.is_empty() {
        return out;
    }
    // (a) same batch sequence at every peer
    let mut per_peer: BTreeMap<usize, Vec<(Vec<u8>, u64)>> = BTreeMap::new();
    for (p, bytes, tt) in &run.peer_frames {
        if decode_batch(bytes).is_some() {
            per_peer.entry(*p).or_default().push((bytes.clone(), *tt));
        }
    }
    let reference: Vec<Vec<u8>> = per_peer.values().next().map(|v| v.iter().map(|(b, _)| b.clone()).collect()).unwrap_or_default();
    for (p, v) in &per_peer {
        let seq: Vec<Vec<u8>> = v.iter().map(|(b, _)| b.clone()).collect();
        if seq != reference {
            out.violate("peers-received-different-batch-sequences", format!("peer {} received {} batch frames, the first peer {}", p, seq.len(), reference.len()), hist(json!(null)));
        }
    }
    if per_peer.len() != n - 1 && !reference.is_empty() {
        out.violate("batch-not-broadcast-to-all-peers", format!("{} of {} peers received batches", per_peer.len(), n - 1), hist(json!(null)));
    }
    // frames as written by the node (time of writing): use the log
    let mut sent_batches: Vec<(Vec<u8>, u64)> = Vec::new();
    {
        let mut seen_at: HashMap<Vec<u8>, usize> = HashMap::new();
        let first_peer = peers[0];
        for e in &run.log {
            if let Ev::Sent { info, bytes, .. } = &e.ev {
                if info.writer_node == sut_id && info.forward && port_kind(info.dst_port) == PortKind::Mempool && node_of_port(info.dst_port) == first_peer as u32 + 1 && decode_batch(bytes).is_some() {
                    let _ = seen_at.insert(bytes.to_vec(), sent_batches.len());
                    sent_batches.push((bytes.to_vec(), e.t_us));
                }
            }
        }
    }
    // (b) content: multiset equality and per-client order
    let mut got: Vec<Vec<u8>> = Vec::new();
    for (bytes, _) in &sent_batches {
        got.extend(decode_batch(bytes).unwrap());
    }
    let mut want: Vec<Vec<u8>> = run.submitted.iter().map(|(_, b)| b.clone()).collect();
    let mut got_sorted = got.clone();
    got_sorted.sort();
    want.sort();
    if got_sorted != want {
        let missing = want.len() as i64 - got_sorted.len() as i64;
        out.violate(
            if got_sorted.len() < want.len() { "transaction-lost" } else if got_sorted.len() > want.len() { "transaction-duplicated-or-invented" } else { "transaction-bytes-changed" },
            format!("submitted {} transactions, batches contain {} (difference {})", want.len(), got_sorted.len(), missing),
            hist(json!({"batches": sent_batches.iter().map(|(b, t)| json!({"t_us": t, "txs": decode_batch(b).unwrap().iter().map(|x| x.len()).collect::<Vec<_>>()})).collect::<Vec<_>>()})),
        );
    }
    let mut last_seq: HashMap<u8, i32> = HashMap::new();
    for tx in &got {
        if tx.len() >= 5 && tx[1] == 0xC1 {
            let c = tx[2];
            let s = u16::from_be_bytes([tx[3], tx[4]]) as i32;
            let prev = last_seq.get(&c).copied().unwrap_or(-1);
            if s <= prev {
                out.violate("client-order-not-preserved", format!("client {}: transaction #{} appears after #{}", c, s, prev), hist(json!(null)));
            }
            last_seq.insert(c, s);
        }
    }
    // delivery instants of transactions at the node
    let mut deliveries: Vec<(Vec<u8>, u64)> = Vec::new();
    for e in &run.log {
        if let Ev::Delivered { info, bytes } = &e.ev {
            if info.forward && port_kind(info.dst_port) == PortKind::Tx {
                deliveries.push((bytes.to_vec(), e.t_us));
            }
        }
    }
    // (c) seal rules
    let delay_us = delay * 1000;
    let mut size_sealed = 0;
    let mut timer_sealed = 0;
    let mut used = vec![false; deliveries.len()];
    for (bytes, t_sent) in &sent_batches {
        let txs = decode_batch(bytes).unwrap();
        let total: usize = txs.iter().map(|x| x.len()).sum();
        let without_last: usize = total - txs.last().map_or(0, |x| x.len());
        if txs.is_empty() {
            out.violate("empty-batch-sealed", "a batch without transactions was broadcast".into(), hist(json!(null)));
            continue;
        }
        if without_last >= batch_size {
            out.violate("batch-not-sealed-at-threshold", format!("batch holds {} bytes before its last transaction, batch_size is {}", without_last, batch_size), hist(json!(null)));
        }
        // match each transaction to its earliest unused delivery with equal bytes
        let mut last_delivery = 0u64;
        let mut earliest = u64::MAX;
        for tx in &txs {
            if let Some(k) = (0..deliveries.len()).find(|k| !used[*k] && deliveries[*k].0 == *tx) {
                used[k] = true;
                last_delivery = last_delivery.max(deliveries[k].1);
                earliest = earliest.min(deliveries[k].1);
            }
        }
        if total >= batch_size {
            size_sealed += 1;
            if *t_sent != last_delivery && last_delivery != 0 {
                out.violate("full-batch-not-sealed-immediately", format!("batch reached {} >= {} bytes at t={} us but was broadcast at t={} us", total, batch_size, last_delivery, t_sent), hist(json!(null)));
            }
        } else {
            timer_sealed += 1;
        }
        if earliest != u64::MAX && *t_sent > earliest + delay_us {
            out.violate("transaction-waited-longer-than-max-batch-delay", format!("a transaction delivered at t={} us was broadcast at t={} us (max_batch_delay {} ms)", earliest, t_sent, delay), hist(json!(null)));
        }
        if earliest != u64::MAX && *t_sent < earliest {
            out.violate("batch-sent-before-transaction-arrived", format!("batch at t={} contains a transaction delivered at t={}", t_sent, earliest), hist(json!(null)));
        }
    }
    // (d) content addressing: own batches and received batches
    let mut stored: HashMap<Vec<u8>, usize> = HashMap::new();
    let mut announced: Vec<Vec<u8>> = Vec::new();
    for e in &run.log {
        match &e.ev {
            Ev::StoreWrite { node, key, len } if *node == sut_id => {
                stored.insert(key.clone(), *len);
            }
            Ev::Digest { node, digest } if *node == sut_id => announced.push(digest.clone()),
            _ => {}
        }
    }
    let mut expected: Vec<(Vec<u8>, usize, &str)> = sent_batches.iter().map(|(b, _)| (sha512_32(b).to_vec(), b.len(), "own")).collect();
    for b in &run.received_sent {
        if decode_batch(b).is_some() {
            expected.push((sha512_32(b).to_vec(), b.len(), "received"));
        }
    }
    for (d, len, kind) in &expected {
        match stored.get(d) {
            Some(l) if l == len => {}
            Some(l) => out.violate("batch-stored-with-different-bytes", format!("{} batch stored under its digest with {} bytes instead of {}", kind, l, len), hist(json!(null))),
            None => out.violate("batch-not-stored-under-hash-of-its-bytes", format!("{} batch of {} bytes: nothing stored under SHA-512/256 of its exact frame bytes", kind, len), hist(json!(null))),
        }
        if !announced.contains(d) {
            out.violate("batch-digest-not-announced", format!("{} batch: SHA-512/256 of its frame bytes was not handed to consensus", kind), hist(json!(null)));
        }
    }
    // byte-identical own batches are separate batches: each sealing is announced
    {
        let mut sealed: HashMap<Vec<u8>, usize> = HashMap::new();
        for (b, _) in &sent_batches {
            *sealed.entry(sha512_32(b).to_vec()).or_insert(0) += 1;
        }
        let mut identical = false;
        for (d, k) in &sealed {
            let a = announced.iter().filter(|x| *x == d).count();
            if *k > 1 {
                identical = true;
            }
            if a < *k && a > 0 {
                out.violate("identical-batch-not-announced-again", format!("{} byte-identical own batches were sealed and broadcast but their digest was handed to consensus {} time(s)", k, a), hist(json!(null)));
            }
        }
        if identical {
            out.class("byte-identical-own-batches");
        }
    }
    for a in &announced {
        if !expected.iter().any(|(d, _, _)| d == a) {
            out.violate("unknown-digest-announced", "a digest was handed to consensus that is not the hash of any batch frame".into(), hist(json!(null)));
        }
    }
    if size_sealed > 0 {
        out.class("sealed-by-size");
    }
    if timer_sealed > 0 {
        out.class("sealed-by-timer");
    }
    if has_empty {
        out.class("empty-transaction");
    }
    if has_big {
        out.class("transaction>=batch_size");
    }
    if nrecv > 0 {
        out.class("received-batches");
    }
    out.class(&format!("build={}", crate::runner::build_name()));
    out.nontrivial = (size_sealed > 0 && timer_sealed > 0) || has_empty || has_big;
    out
}

fn c12_run(case: &Case, _ctx: &Ctx) -> Outcome {
    let n = cfg_range(&case.cfg, 0, 4, 7) as usize;
    let mut t = Tape::new(&case.tape);
    // stake distributions: equal, skewed, dominant peer, dominant node
    let sut = cfg_range(&case.cfg, 3, 0, n as u64 - 1) as usize;
    let stakes: Vec<u32> = match cfg_range(&case.cfg, 1, 0, 4) {
        0 => vec![1; n],
        1 => (0..n).map(|i| 1 + ((i as u64 + cfg_range(&case.cfg, 2, 0, 5)) % 3) as u32).collect(),
        2 => {
            let mut v = vec![1u32; n];
            v[(sut + 1) % n] = n as u32; // one peer holds about half
            v
        }
        3 => {
            let mut v = vec![1u32; n];
            v[sut] = 2 * n as u32; // the node alone is a quorum? (2n of 3n-1 total) -> yes when 2n >= q
            v
        }
        _ => (0..n).map(|i| 1 + ((i * 7 + 3) % 4) as u32).collect(),
    };
    let w = World::new(&stakes, 0);
    let delay = 10 + cfg_range(&case.cfg, 6, 0, 20);
    let batch_size = 50;
    let rt_seed = case.cfg.get(7).copied().unwrap_or(0) as u64;
    let nbatches = t.range(1, 5) as usize;
    let peers: Vec<usize> = (0..n).filter(|p| *p != sut).collect();
    let mut acks = HashMap::new();
    let mut plan_json = Vec::new();
    for k in 0..nbatches {
        for p in &peers {
            let plan = match t.weighted(&[4, 3, 2]) {
                0 => AckPlan::Now,
                1 => AckPlan::After(t.range(1, 300)),
                _ => AckPlan::Never,
            };
            plan_json.push(json!({"batch": k, "peer": p, "ack": format!("{:?}", plan)}));
            acks.insert((*p, k), plan);
        }
    }
    // each batch: one transaction of batch_size bytes (sealed at once), sent with gaps
    let mut txs = Vec::new();
    for k in 0..nbatches {
        let mut tx = vec![7u8; batch_size];
        tx[1] = k as u8;
        let gap = if k == 0 { 0 } else { t.range(0, 100_000) };
        txs.push((0usize, tx, gap));
    }
    // connection resets between the node and some peers while batches are in flight: the reliable
    // sender reconnects (200 ms back-off) and retransmits what was not acknowledged
    let mut cuts = Vec::new();
    let ncuts = t.weighted(&[3, 2, 1]);
    for _ in 0..ncuts {
        let peer = *t.pick(&peers);
        let at = t.range(1, 400);
        plan_json.push(json!({"cut_connection_to_peer": peer, "at_ms": at}));
        cuts.push((peer, at));
    }
    let had_cuts = !cuts.is_empty();
    let plan = MpPlan { txs, received: Vec::new(), acks, cuts, horizon_ms: 1_200 };
    let run = run_mempool(&w, sut, batch_size, delay, rt_seed, plan);
    let mut out = Outcome::default();
    let sut_id = sut as u32 + 1;
    let q = w.quorum();
    let hist = |extra: Value| json!({"n": n, "stakes": stakes, "sut": sut, "quorum": q, "ack_plan": plan_json, "detail": extra});
    out.sample = json!({"n": n, "stakes": stakes, "sut": sut, "quorum": q, "batches": nbatches, "ack_plan": plan_json.iter().take(12).cloned().collect::<Vec<_>>()});
    out.fingerprint = fnv(format!("{:?}|{}|{:?}", stakes, sut, plan_json).as_bytes());
    if run.panics.iter().any(|p| p.node == sut_id) {
        out.class("skipped:node-panicked");
        return out;
    }
    // per connection: the order in which batch frames were written on it, and the log positions at
    // which reply frames were delivered back to the node on it (FIFO pairing is per connection; after a
    // reset the reliable sender retransmits on a new connection)
    let mut sent_order: HashMap<u64, (u32, Vec<Vec<u8>>)> = HashMap::new(); // conn -> (peer, frames)
    let mut acks_delivered: HashMap<u64, Vec<u64>> = HashMap::new(); // conn -> log seq of each delivered reply
    let mut batches_in_order: Vec<Vec<u8>> = Vec::new();
    for e in &run.log {
        match &e.ev {
            Ev::Sent { info, bytes, dropped } if info.writer_node == sut_id && info.forward && port_kind(info.dst_port) == PortKind::Mempool => {
                if decode_batch(bytes).is_some() {
                    if !*dropped {
                        sent_order.entry(info.conn).or_insert_with(|| (node_of_port(info.dst_port), Vec::new())).1.push(bytes.to_vec());
                    }
                    if !batches_in_order.contains(&bytes.to_vec()) {
                        batches_in_order.push(bytes.to_vec());
                    }
                }
            }
            Ev::Delivered { info, .. } if !info.forward && info.src_node == sut_id && port_kind(info.dst_port) == PortKind::Mempool => {
                acks_delivered.entry(info.conn).or_default().push(e.seq);
            }
            _ => {}
        }
    }
    let own = stakes[sut] as u64;
    let mut withheld = false;
    let mut never_released = false;
    for b in &batches_in_order {
        let d = sha512_32(b).to_vec();
        // release = store write under the digest (the digest reaches consensus right after)
        let release = run.log.iter().find_map(|e| match &e.ev {
            Ev::StoreWrite { node, key, .. } if *node == sut_id && *key == d => Some((e.seq, e.t_us)),
            _ => None,
        });
        let sent_t = run.log.iter().find_map(|e| match &e.ev {
            Ev::Sent { info, bytes, .. } if info.writer_node == sut_id && **bytes == *b => Some(e.t_us),
            _ => None,
        }).unwrap_or(0);
        let acked_before = |seq: u64| -> u64 {
            let mut s = own;
            for p in &peers {
                let id = *p as u32 + 1;
                let acked = sent_order.iter().any(|(conn, (peer, frames))| {
                    *peer == id
                        && frames.iter().position(|x| x == b).map_or(false, |idx| acks_delivered.get(conn).map_or(0, |v| v.iter().filter(|x| **x < seq).count()) > idx)
                });
                if acked {
                    s += stakes[*p] as u64;
                }
            }
            s
        };
        match release {
            Some((seq, t_rel)) => {
                let have = acked_before(seq);
                if have < q {
                    out.violate(
                        "batch-released-before-quorum-of-acks",
                        format!("own batch released with acknowledged stake {} (own stake {} included) below the quorum {}", have, own, q),
                        hist(json!({"released_at_us": t_rel, "sent_at_us": sent_t})),
                    );
                }
                if t_rel > sent_t + 2_000 {
                    withheld = true;
                }
            }
            None => {
                never_released = true;
                let have = acked_before(u64::MAX);
                if have >= q {
                    out.class("not-released-although-quorum-acked(measured, not asserted)");
                }
            }
        }
    }
    // also: the digest channel must not announce an own batch that was never stored (same release point)
    if withheld {
        out.class("withheld-until-quorum");
    }
    if had_cuts {
        out.class("connection-reset-while-batches-in-flight");
    }
    if never_released {
        out.class("never-released");
    }
    out.class(&format!("stakes={}", match cfg_range(&case.cfg, 1, 0, 4) { 0 => "equal", 1 => "skewed", 2 => "dominant-peer", 3 => "dominant-node", _ => "mixed" }));
    out.nontrivial = withheld || never_released;
    out
}


/// C11 on the real clock: many client connections flood tiny transactions while the seal timer
/// (1..3 ms) keeps expiring, so that a transaction is regularly being taken from the channel in the
/// very poll in which the timer fires - an interleaving virtual time cannot produce, because there
/// the clock only advances when every task is idle. Oracle: nothing lost, duplicated or reordered
/// per client (no timing clauses on the real clock).
fn c11_realtime(case: &Case, _ctx: &Ctx) -> Outcome {
    let mut t = Tape::new(&case.tape);
    let n = 4usize;
    let w = World::new(&vec![1u32; n], 0);
    let sut = 0usize;
    let sut_id = 1u32;
    let delay = 1 + t.below(3) as u64;
    let nclients = 8 + t.below(24);
    let per_client = 20 + t.below(60);
    let pause_us = 50 + t.below(400) as u64;
    let dir = sim::scratch_dir("mprt");
    let _g = sim::ScratchGuard(dir.clone());
    let received: Arc<Mutex<Vec<Vec<u8>>>> = Arc::new(Mutex::new(Vec::new()));
    let rec = received.clone();
    let total = nclients * per_client;
    let w2 = &w;
    let got_all = sim::run_sim_realtime(case.cfg.first().copied().unwrap_or(0) as u64, || async move {
        simnet::install(Box::new(RigPolicy {
            on_connect: Box::new(|_, _| ConnectDecision::Accept(us(0))),
            on_frame: Box::new(|_, _| FrameDecision::Deliver(us(0))),
            on_delivered: None,
        }));
        sim::set_logging(false);
        for p in 1..n {
            let listener = TcpListener::bind(&addr(MEMPOOL_PORT + p as u16)).await.expect("bind peer");
            let rec = rec.clone();
            tokio::spawn(async move {
                loop {
                    let (socket, _) = match listener.accept().await {
                        Ok(x) => x,
                        Err(_) => continue,
                    };
                    let rec = rec.clone();
                    tokio::spawn(async move {
                        let mut framed = Framed::new(socket, LengthDelimitedCodec::new());
                        while let Some(Ok(frame)) = framed.next().await {
                            if p == 1 {
                                if let Some(txs) = decode_batch(&frame) {
                                    rec.lock().unwrap().extend(txs);
                                }
                            }
                            if framed.send(Bytes::from("Ack")).await.is_err() {
                                break;
                            }
                        }
                    });
                }
            });
        }
        simnet::set_current_node(sut_id);
        let store = Store::new(&format!("{}/db", dir)).expect("store");
        let (_tx_c2m, rx_c2m) = channel(1000);
        let (tx_m2c, mut rx_m2c) = channel(10_000);
        Mempool::spawn(w2.pk(sut), w2.mcom.clone(), Parameters { gc_depth: 50, sync_retry_delay: 5_000, sync_retry_nodes: 3, batch_size: 1_000_000, max_batch_delay: delay }, store, rx_c2m, tx_m2c);
        simnet::set_current_node(0);
        tokio::spawn(async move { while rx_m2c.recv().await.is_some() {} });
        tokio::time::sleep(ms(5)).await;
        let mut clients = Vec::new();
        for c in 0..nclients {
            clients.push(tokio::spawn(async move {
                let s = match TcpStream::connect(addr(TX_PORT + sut as u16)).await {
                    Ok(s) => s,
                    Err(_) => return,
                };
                let mut f = Framed::new(s, LengthDelimitedCodec::new());
                for k in 0..per_client {
                    let mut tx = vec![1u8, 0xC1, c as u8, 0, 0, 7, 7, 7];
                    tx[3..5].copy_from_slice(&(k as u16).to_be_bytes());
                    if f.send(Bytes::from(tx)).await.is_err() {
                        return;
                    }
                    tokio::time::sleep(us(pause_us + (c as u64 * 37 + k as u64 * 11) % 200)).await;
                }
                // keep the connection open until the end of the case
                tokio::time::sleep(ms(60_000)).await;
            }));
        }
        // wait (real time) until everything came out, at most 15 s
        let t0 = std::time::Instant::now();
        loop {
            tokio::time::sleep(ms(20)).await;
            let have = rec.lock().unwrap().len();
            if have >= total {
                // a little longer, to catch duplicates
                tokio::time::sleep(ms(20)).await;
                return true;
            }
            if t0.elapsed().as_secs() >= 15 {
                return false;
            }
        }
    });
    let got = received.lock().unwrap().clone();
    let mut out = Outcome::default();
    let hist = json!({"clients": nclients, "per_client": per_client, "max_batch_delay_ms": delay, "pause_us": pause_us, "submitted": total, "received": got.len()});
    let mut seen: HashMap<(u8, u16), u32> = HashMap::new();
    let mut last: HashMap<u8, i32> = HashMap::new();
    for tx in &got {
        if tx.len() >= 5 {
            let (c, k) = (tx[2], u16::from_be_bytes([tx[3], tx[4]]));
            *seen.entry((c, k)).or_insert(0) += 1;
            let prev = last.get(&c).copied().unwrap_or(-1);
            if (k as i32) < prev {
                out.violate("client-order-not-preserved", format!("client {}: transaction #{} after #{}", c, k, prev), hist.clone());
                break;
            }
            last.insert(c, k as i32);
        }
    }
    if seen.values().any(|v| *v > 1) {
        out.violate("transaction-duplicated-or-invented", "a transaction appears in more than one batch".into(), hist.clone());
    }
    if !got_all || seen.len() < total {
        out.violate("transaction-lost", format!("{} of {} submitted transactions never appeared in a batch within 15 s", total - seen.len().min(total), total), hist.clone());
    }
    out.class("real-clock-burst");
    out.nontrivial = true;
    out.fingerprint = fnv(format!("{}|{}|{}|{}|{:?}", nclients, per_client, delay, pause_us, case.cfg).as_bytes());
    out.sample = hist;
    out
}
