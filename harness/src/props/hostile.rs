//! Stateful parts of C15: hostile input against a live real node, then functional probes.
use crate::rig::HEv;
use crate::runner::{Ctx, Outcome, Part};
use crate::solo::{self, render_hist, run_solo, sample_of, Knobs, Profile};
use crate::tape::{fnv, Case};
use serde_json::json;

pub fn c15_parts() -> Vec<Part> {
    vec![Part {
        name: "hostile-solo",
        cfg_len: solo::CFG_LEN,
        tape_max: 300,
        quick: 10_000,
        thorough: 250_000,
        max_shrink_iters: 200,
        run: run_hostile_solo,
    }]
}

fn run_hostile_solo(case: &Case, _ctx: &Ctx) -> Outcome {
    let knobs = Knobs { hostile: true, probes: true, max_steps: 14, ..Knobs::default() };
    let run = run_solo(case, Profile::Mixed, &knobs);
    let mut out = Outcome::default();
    let mut sample = sample_of(&run);
    if let Some(o) = sample.as_object_mut() {
        o.insert("hostile_inputs".into(), json!(run.hostile.iter().map(|(n, d)| format!("{}{}", n, if *d { " (decoded)" } else { "" })).collect::<Vec<_>>()));
        o.insert("probes".into(), json!(run.probes.iter().map(|(n, ok, _)| format!("{}={}", n, ok)).collect::<Vec<_>>()));
    }
    out.sample = sample;
    let hist = || json!({"n": run.w.n, "stakes": run.w.stakes, "sut": run.sut, "script": run.steps, "history": render_hist(&run, 300),
        "panics": run.panics.iter().map(|p| format!("node {} {} {}", p.node, p.location, p.message)).collect::<Vec<_>>()});
    // any panic in a task of the node (its own code or a dependency called from it)
    let mut panicked = false;
    for p in &run.panics {
        if p.node == run.sut_id {
            panicked = true;
            out.violate(&format!("panic@{}", p.location), format!("the node panicked at {}: {}", p.location, p.message), hist());
        }
    }
    if !panicked {
        for (name, ok, detail) in &run.probes {
            if !ok {
                out.violate(&format!("service-down:{}", name), detail.clone(), hist());
            }
        }
    }
    let mut kinds = String::new();
    for (name, decoded) in &run.hostile {
        out.class(&format!("hostile:{}", name.split("-port").next().unwrap_or(name)));
        if *decoded {
            kinds.push_str(name);
        }
    }
    let reached = run.hostile.iter().any(|(_, d)| *d);
    if reached {
        out.class("hostile-input-decoded");
    }
    let junk = run.hist.iter().filter(|e| matches!(e.ev, HEv::InJunk { .. })).count();
    if junk > 0 {
        out.class("undecodable-frame-delivered");
    }
    out.nontrivial = reached;
    out.fingerprint = fnv(format!("{:?}{:?}", run.hostile, run.stats).as_bytes());
    out
}
