//! Stateful parts of C15 (placeholder until the rigs are wired in).
use crate::runner::Part;

pub fn c15_parts() -> Vec<Part> {
    Vec::new()
}
