//! C14 — the real `ReliableSender` against a harness-played peer whose reply to a message is a
//! function of the message, under generated and enumerated connection faults.
use crate::runner::{Ctx, Outcome, Part, PropDef};
use crate::sim::{self, log, ms, us, Ev, Event, RigPolicy};
use crate::tape::{fnv, Case, Tape};
use crate::world::addr;
use bytes::Bytes;
use futures::{SinkExt, StreamExt};
use network::simnet::{self, ConnectDecision, FrameDecision, TcpListener};
use network::ReliableSender;
use serde_json::{json, Value};
use std::collections::HashMap;
use std::sync::{Arc, Mutex};
use tokio::sync::oneshot;
use tokio_util::codec::{Framed, LengthDelimitedCodec};

const PORT: u16 = 7000;
const SENDER: u32 = 1;
const PEER: u32 = 2;

pub fn def() -> PropDef {
    PropDef {
        id: "C14",
        level: "fault_enumeration",
        rule: "(enumerated-cuts) for 1..4 messages handed over back to back: every single fault position - cut before / after the k-th request frame, cut before / after the k-th reply frame, 1..3 refused connection attempts - every pair of such positions, and for 1..2 messages every triple (exhaustive over this space of 2 482 cases; the case index is mapped onto it). (random-faults) proptest tape -> op sequence over one real ReliableSender and one peer: send (1..12 unique messages), drop a kept handle, sleep (0 .. several back-off periods), refuse the next k connects, cut the connection now / before or after an upcoming frame in either direction, peer down (listener closed, connections cut) and up again, replies delayed; rarely an outage longer than 65 536 back-off periods (virtual time makes it cheap). After the faults end the peer is up and 70 virtual seconds pass (back-off is capped at 60 s). Oracle: every message whose handle is kept was delivered at least once and its handle resolved with exactly reply(m) = 'R:'+m, not before that reply was delivered to the sender; first deliveries are in hand-over order; no frame carrying m is written in an instant after the one in which m's handle was dropped; no handle resolves with another message's reply; the sender's tasks do not panic. Non-trivial: a connection failure happened while >= 1 message was sent but unacknowledged; distinct by op-sequence hash.",
        assumptions: &[
            "a cut is a connection reset at a frame boundary (frames are atomic on the in-memory transport); both endpoints notice it at their next read/write",
            "the peer replies to every frame it reads, in order (the protocol's assumption behind FIFO pairing)",
            "harness build has overflow checks on, like the repository's own test profile",
        ],
        parts: vec![
            Part { name: "enumerated-cuts", cfg_len: 1, tape_max: 0, quick: 2_482, thorough: 2_482, max_shrink_iters: 50, run: run_enumerated },
            Part { name: "random-faults", cfg_len: 1, tape_max: 160, quick: 100_000, thorough: 3_000_000, max_shrink_iters: 400, run: run_random },
        ],
    }
}

#[derive(Clone, Debug)]
enum Op {
    Send,
    DropHandle(usize),
    Sleep(u64),
    RefuseNext(u32),
    CutNow,
    /// cut when the k-th next frame in the given direction is written; deliver it first or not
    CutAtFrame { forward: bool, skip: u64, deliver: bool },
    PeerDown,
    PeerUp,
    ReplyDelay(u64),
    LongOutage,
}

#[derive(Default)]
struct Faults {
    refuse: u32,
    cuts: Vec<(bool, u64, bool)>, // (forward, absolute frame index in that direction, deliver first)
    fwd: u64,
    bwd: u64,
    reply_delay_ms: u64,
    connection_failures_with_unacked: u64,
}

#[derive(Default)]
struct Shared {
    /// (message, t_us, log seq) in order of reading by the peer
    delivered: Vec<(Vec<u8>, u64, u64)>,
    /// per message index: (resolved value or None for error, t_us, log seq)
    resolved: HashMap<usize, (Option<Vec<u8>>, u64, u64)>,
    dropped: HashMap<usize, u64>, // message index -> t_us of the drop
}

struct Run {
    log: Vec<Event>,
    shared: Shared,
    messages: Vec<Vec<u8>>,
    kept: Vec<bool>,
    ops: Vec<Value>,
    failures_with_unacked: u64,
    panics: Vec<sim::PanicRec>,
}

fn message(i: usize, salt: u64) -> Vec<u8> {
    let mut m = format!("msg-{}-{:x}", i, salt).into_bytes();
    m.extend(std::iter::repeat(b'.').take(i % 7));
    m
}

fn reply_to(m: &[u8]) -> Vec<u8> {
    let mut r = b"R:".to_vec();
    r.extend(m);
    r
}

async fn spawn_peer(shared: Arc<Mutex<Shared>>, faults: Arc<Mutex<Faults>>) -> tokio::task::JoinHandle<()> {
    let listener = TcpListener::bind(&addr(PORT)).await.expect("bind peer");
    simnet::set_current_node(PEER);
    let h = tokio::spawn(async move {
        loop {
            let (socket, _) = match listener.accept().await {
                Ok(x) => x,
                Err(_) => continue,
            };
            let shared = shared.clone();
            let faults = faults.clone();
            tokio::spawn(async move {
                let mut framed = Framed::new(socket, LengthDelimitedCodec::new());
                while let Some(Ok(frame)) = framed.next().await {
                    let m = frame.to_vec();
                    shared.lock().unwrap().delivered.push((m.clone(), sim::now_us(), sim::log_len() as u64));
                    let d = faults.lock().unwrap().reply_delay_ms;
                    if d > 0 {
                        tokio::time::sleep(ms(d)).await;
                    }
                    if framed.send(Bytes::from(reply_to(&m))).await.is_err() {
                        break;
                    }
                }
            });
        }
    });
    simnet::set_current_node(0);
    h
}

fn execute(ops: Vec<Op>, salt: u64, rt_seed: u64) -> Run {
    let shared: Arc<Mutex<Shared>> = Arc::new(Mutex::new(Shared::default()));
    let faults: Arc<Mutex<Faults>> = Arc::new(Mutex::new(Faults::default()));
    let (sh, fa) = (shared.clone(), faults.clone());
    let ops_json: Vec<Value> = ops.iter().map(|o| json!(format!("{:?}", o))).collect();
    let (messages, kept) = sim::run_sim(rt_seed ^ 0xc14, || async move {
        let shared = sh;
        let faults = fa;
        let f1 = faults.clone();
        let f2 = faults.clone();
        let s2 = shared.clone();
        simnet::install(Box::new(RigPolicy {
            on_connect: Box::new(move |_, _| {
                let mut f = f1.lock().unwrap();
                if f.refuse > 0 {
                    f.refuse -= 1;
                    ConnectDecision::Refuse
                } else {
                    ConnectDecision::Accept(us(0))
                }
            }),
            on_frame: Box::new(move |info, _| {
                let mut f = f2.lock().unwrap();
                let idx = if info.forward {
                    f.fwd += 1;
                    f.fwd - 1
                } else {
                    f.bwd += 1;
                    f.bwd - 1
                };
                if let Some(pos) = f.cuts.iter().position(|(fw, i, _)| *fw == info.forward && *i == idx) {
                    let (_, _, deliver) = f.cuts.remove(pos);
                    let _ = &s2;
                    return if deliver { FrameDecision::DeliverThenReset(ms(1)) } else { FrameDecision::Reset };
                }
                FrameDecision::Deliver(ms(1))
            }),
            on_delivered: None,
        }));
        let mut peer = Some(spawn_peer(shared.clone(), faults.clone()).await);
        simnet::set_current_node(SENDER);
        let mut sender = ReliableSender::new();
        simnet::set_current_node(0);
        let mut messages: Vec<Vec<u8>> = Vec::new();
        let mut kept: Vec<bool> = Vec::new();
        let mut cancels: Vec<Option<oneshot::Sender<()>>> = Vec::new();
        for op in ops {
            match op {
                Op::Send => {
                    let i = messages.len();
                    let m = message(i, salt);
                    simnet::set_current_node(SENDER);
                    let handle = sender.send(addr(PORT), Bytes::from(m.clone())).await;
                    simnet::set_current_node(0);
                    log(Ev::Note(format!("handover {}", i)));
                    let (tx_cancel, rx_cancel) = oneshot::channel::<()>();
                    let shared = shared.clone();
                    tokio::spawn(async move {
                        tokio::select! {
                            r = handle => {
                                let v = r.ok().map(|b| b.to_vec());
                                shared.lock().unwrap().resolved.insert(i, (v, sim::now_us(), sim::log_len() as u64));
                            }
                            _ = rx_cancel => {
                                // the handle is dropped here
                                shared.lock().unwrap().dropped.insert(i, sim::now_us());
                                log(Ev::Note(format!("handle-dropped {}", i)));
                            }
                        }
                    });
                    messages.push(m);
                    kept.push(true);
                    cancels.push(Some(tx_cancel));
                }
                Op::DropHandle(k) => {
                    if !messages.is_empty() {
                        let j = k % messages.len();
                        let resolved = shared.lock().unwrap().resolved.contains_key(&j);
                        if kept[j] && !resolved {
                            if let Some(c) = cancels[j].take() {
                                let _ = c.send(());
                                kept[j] = false;
                                tokio::task::yield_now().await;
                            }
                        }
                    }
                }
                Op::Sleep(d) => tokio::time::sleep(ms(d)).await,
                Op::RefuseNext(k) => faults.lock().unwrap().refuse += k,
                Op::CutNow => {
                    note_failure(&shared, &faults, &messages);
                    simnet::cut_port(PORT);
                }
                Op::CutAtFrame { forward, skip, deliver } => {
                    let mut f = faults.lock().unwrap();
                    let base = if forward { f.fwd } else { f.bwd };
                    f.cuts.push((forward, base + skip, deliver));
                }
                Op::PeerDown => {
                    if let Some(h) = peer.take() {
                        note_failure(&shared, &faults, &messages);
                        h.abort();
                        tokio::task::yield_now().await;
                        simnet::cut_port(PORT);
                    }
                }
                Op::PeerUp => {
                    if peer.is_none() {
                        peer = Some(spawn_peer(shared.clone(), faults.clone()).await);
                    }
                }
                Op::ReplyDelay(d) => faults.lock().unwrap().reply_delay_ms = d,
                Op::LongOutage => {
                    if let Some(h) = peer.take() {
                        note_failure(&shared, &faults, &messages);
                        h.abort();
                        tokio::task::yield_now().await;
                        simnet::cut_port(PORT);
                    }
                    tokio::time::sleep(std::time::Duration::from_secs(66_000 * 60)).await;
                }
            }
        }
        // faults end: peer up, nothing refused, no pending cuts, replies prompt
        {
            let mut f = faults.lock().unwrap();
            f.refuse = 0;
            f.cuts.clear();
            f.reply_delay_ms = 0;
        }
        if peer.is_none() {
            let _ = spawn_peer(shared.clone(), faults.clone()).await;
        }
        tokio::time::sleep(ms(70_000)).await;
        (messages, kept)
    });
    let log = sim::take_log();
    let failures = faults.lock().unwrap().connection_failures_with_unacked;
    let shared = std::mem::take(&mut *shared.lock().unwrap());
    Run { log, shared, messages, kept, ops: ops_json, failures_with_unacked: failures, panics: sim::panics() }
}

fn note_failure(shared: &Arc<Mutex<Shared>>, faults: &Arc<Mutex<Faults>>, messages: &[Vec<u8>]) {
    let s = shared.lock().unwrap();
    let unacked = (0..messages.len()).any(|i| !s.resolved.contains_key(&i));
    if unacked {
        faults.lock().unwrap().connection_failures_with_unacked += 1;
    }
}

fn judge(run: &Run, out: &mut Outcome) {
    let hist = |extra: Value| {
        let mut frames = Vec::new();
        for e in &run.log {
            match &e.ev {
                Ev::Sent { info, bytes, dropped } if info.dst_port == PORT => frames.push(json!({"t_us": e.t_us, "dir": if info.forward { "request" } else { "reply" }, "conn": info.conn, "bytes": String::from_utf8_lossy(bytes), "cut_instead": dropped})),
                Ev::Closed { conn } => frames.push(json!({"t_us": e.t_us, "closed": conn})),
                Ev::Note(n) => frames.push(json!({"t_us": e.t_us, "note": n})),
                Ev::Panic(p) => frames.push(json!({"t_us": e.t_us, "panic": format!("{} {}", p.location, p.message)})),
                _ => {}
            }
            if frames.len() > 300 {
                break;
            }
        }
        json!({"ops": run.ops, "detail": extra, "events": frames})
    };
    for p in &run.panics {
        if p.node == SENDER {
            out.violate(&format!("panic@{}", p.location), format!("a task of the sender panicked at {}: {}", p.location, p.message), hist(json!(null)));
        }
    }
    let n = run.messages.len();
    // reply deliveries to the sender: log seq of each delivered reply frame by content
    let mut reply_delivered: HashMap<Vec<u8>, u64> = HashMap::new();
    for e in &run.log {
        if let Ev::Delivered { info, bytes } = &e.ev {
            if !info.forward && info.dst_port == PORT {
                reply_delivered.entry(bytes.to_vec()).or_insert(e.seq);
            }
        }
    }
    let mut first_delivery: Vec<Option<(u64, u64)>> = vec![None; n];
    for (m, t, seq) in &run.shared.delivered {
        if let Some(i) = run.messages.iter().position(|x| x == m) {
            if first_delivery[i].is_none() {
                first_delivery[i] = Some((*t, *seq));
            }
        } else {
            out.violate("peer-received-unknown-message", format!("the peer received {:?} which was never handed over", String::from_utf8_lossy(m)), hist(json!(null)));
        }
    }
    let already_panicked = !out.violations.is_empty();
    for i in 0..n {
        let m = &run.messages[i];
        if run.kept[i] && !already_panicked {
            if first_delivery[i].is_none() {
                out.violate("kept-message-never-delivered", format!("message #{} was never delivered although its handle was kept and the peer has been reachable for 70 s", i), hist(json!(null)));
            }
            match run.shared.resolved.get(&i) {
                None => out.violate("kept-handle-never-resolved", format!("handle of message #{} never resolved", i), hist(json!(null))),
                Some((None, _, _)) => out.violate("kept-handle-resolved-with-error", format!("handle of message #{} resolved with an error (the sending task is gone)", i), hist(json!(null))),
                Some((Some(v), _, seq)) => {
                    if *v != reply_to(m) {
                        out.violate("handle-resolved-with-wrong-reply", format!("handle of message #{} resolved with {:?}", i, String::from_utf8_lossy(v)), hist(json!(null)));
                    } else {
                        match reply_delivered.get(v) {
                            Some(ds) if ds <= seq => {}
                            _ => out.violate("handle-resolved-before-reply-arrived", format!("handle of message #{} resolved before the peer's reply to it was delivered", i), hist(json!(null))),
                        }
                    }
                }
            }
        }
        if let Some((Some(v), _, _)) = run.shared.resolved.get(&i) {
            if *v != reply_to(m) {
                out.violate("handle-resolved-with-wrong-reply", format!("handle of message #{} resolved with {:?}", i, String::from_utf8_lossy(v)), hist(json!(null)));
            }
        }
        // no transmission in an instant after the drop
        if let Some(t_drop) = run.shared.dropped.get(&i) {
            for e in &run.log {
                if let Ev::Sent { info, bytes, .. } = &e.ev {
                    if info.forward && info.dst_port == PORT && **bytes == *m && e.t_us > *t_drop {
                        out.violate("message-sent-after-its-handle-was-dropped", format!("message #{} was written at t={} us, its handle was dropped at t={} us", i, e.t_us, t_drop), hist(json!(null)));
                        break;
                    }
                }
            }
        }
    }
    // first deliveries in hand-over order
    let mut prev: Option<(usize, u64)> = None;
    for i in 0..n {
        if let Some((_, seq)) = first_delivery[i] {
            if let Some((j, p)) = prev {
                if seq < p {
                    out.violate("first-deliveries-out-of-order", format!("message #{} was first delivered before message #{}", i, j), hist(json!(null)));
                }
            }
            if prev.map_or(true, |(_, p)| seq > p) {
                prev = Some((i, seq));
            }
        }
    }
    if run.failures_with_unacked > 0 {
        out.class("failure-with-unacked-messages");
    }
    let retransmissions = run.shared.delivered.len() as i64 - first_delivery.iter().filter(|x| x.is_some()).count() as i64;
    if retransmissions > 0 {
        out.class("retransmission-seen");
    }
    if run.kept.iter().any(|k| !*k) {
        out.class("handle-dropped");
    }
    out.nontrivial = run.failures_with_unacked > 0 || retransmissions > 0;
}

/// Single fault positions for k messages: (description, ops before the sends, ops after).
fn positions(k: usize) -> Vec<Vec<Op>> {
    let mut v: Vec<Vec<Op>> = Vec::new();
    for j in 0..k as u64 {
        for deliver in [false, true] {
            v.push(vec![Op::CutAtFrame { forward: true, skip: j, deliver }]);
            v.push(vec![Op::CutAtFrame { forward: false, skip: j, deliver }]);
        }
    }
    for r in 1..=3u32 {
        v.push(vec![Op::RefuseNext(r)]);
    }
    v
}

pub fn space_size() -> u64 {
    build_space().len() as u64
}

fn build_space() -> Vec<(usize, Vec<Op>)> {
    let mut space: Vec<(usize, Vec<Op>)> = Vec::new();
    for k in 1..=4usize {
        let pos = positions(k);
        for p in &pos {
            space.push((k, p.clone()));
        }
        for a in &pos {
            for b in &pos {
                let mut ops = a.clone();
                ops.extend(b.clone());
                space.push((k, ops));
            }
        }
        // every triple of positions for up to two messages
        if k <= 2 {
            for a in &pos {
                for b in &pos {
                    for c in &pos {
                        let mut ops = a.clone();
                        ops.extend(b.clone());
                        ops.extend(c.clone());
                        space.push((k, ops));
                    }
                }
            }
        }
    }
    space
}

fn run_enumerated(case: &Case, _ctx: &Ctx) -> Outcome {
    // map the case index onto the enumerated space: k messages x (single position | pair of positions)
    let space = build_space();
    let idx = ((case.cfg.first().copied().unwrap_or(0) as u64 * space.len() as u64) >> 32) as usize;
    let (k, faults) = space[idx].clone();
    let mut ops = faults.clone();
    for _ in 0..k {
        ops.push(Op::Send);
    }
    // a second fault armed after the first recovery: refusals after the cut
    ops.push(Op::Sleep(1));
    let run = execute(ops, idx as u64, idx as u64);
    let mut out = Outcome::default();
    judge(&run, &mut out);
    out.class(&format!("messages={}", k));
    out.sample = json!({"enumerated_index": idx, "of": space.len(), "messages": k, "faults": faults.iter().map(|f| format!("{:?}", f)).collect::<Vec<_>>()});
    out.fingerprint = idx as u64 + 1;
    out.nontrivial = true;
    out
}

fn run_random(case: &Case, _ctx: &Ctx) -> Outcome {
    let mut t = Tape::new(&case.tape);
    let nops = t.range(2, 30) as usize;
    let mut ops = Vec::new();
    let mut sends = 0;
    let mut long = false;
    for _ in 0..nops {
        let op = match t.weighted(&[10, 3, 6, 2, 2, 4, 2, 2, 1]) {
            0 => {
                sends += 1;
                Op::Send
            }
            1 => Op::DropHandle(t.below(16)),
            2 => Op::Sleep(match t.weighted(&[4, 3, 2, 1]) {
                0 => t.range(0, 3),
                1 => t.range(4, 250),
                2 => t.range(250, 3_000),
                _ => t.range(3_000, 130_000),
            }),
            3 => Op::RefuseNext(t.range(1, 12) as u32),
            4 => Op::CutNow,
            5 => Op::CutAtFrame { forward: t.chance(1, 2), skip: t.range(0, 3), deliver: t.chance(1, 2) },
            6 => Op::PeerDown,
            7 => Op::PeerUp,
            _ => Op::ReplyDelay(t.range(0, 400)),
        };
        if sends <= 12 || !matches!(op, Op::Send) {
            ops.push(op);
        }
    }
    if sends == 0 {
        ops.insert(0, Op::Send);
    }
    // rarely: an outage longer than 65 536 back-off periods
    if t.chance(1, 150) {
        let at = t.below(ops.len() + 1);
        ops.insert(at, Op::LongOutage);
        long = true;
    }
    let salt = t.u64() & 0xffff;
    let run = execute(ops, salt, case.cfg.first().copied().unwrap_or(0) as u64);
    let mut out = Outcome::default();
    judge(&run, &mut out);
    if long {
        out.class("outage>65536-backoff-periods");
    }
    out.sample = json!({"ops": run.ops.iter().take(40).cloned().collect::<Vec<_>>(), "messages": run.messages.len(), "deliveries_at_peer": run.shared.delivered.len()});
    out.fingerprint = fnv(format!("{:?}", run.ops).as_bytes());
    out
}
