//! C15 — robustness to hostile input. Part "decoders": byte-level generated inputs to every decoder
//! reachable from the wire or from the key/committee files; the oracle is totality (a value or an
//! error, never a panic) plus decode/encode consistency. The stateful parts (hostile frames against a
//! live node followed by functional probes) are in `hostile.rs`.
use crate::runner::{Ctx, Outcome, Part, PropDef};
use crate::tape::{fnv, Case, Tape};
use crate::world::World;
use consensus::{ConsensusMessage, QC};
use crypto::{Digest, PublicKey, SecretKey};
use mempool::MempoolMessage;
use serde_json::json;

pub fn def() -> PropDef {
    let mut parts = vec![Part {
        name: "decoders",
        cfg_len: 0,
        tape_max: 160,
        quick: 600_000,
        thorough: 30_000_000,
        max_shrink_iters: 2000,
        run: run_decoders,
    }];
    parts.extend(crate::props::hostile::c15_parts());
    PropDef {
        id: "C15",
        level: "exploration",
        rule: "proptest tape -> (decoders) text/bytes for PublicKey/SecretKey::decode_base64 (lengths 0..70, valid and invalid base64), bincode bytes for ConsensusMessage and MempoolMessage (random bytes; valid messages of every variant with 1..3 byte/bit edits, truncations, extensions, length fields rewritten to 0 / small / huge), JSON for the key and committee files with edited key strings; oracle: every decoder returns Ok or Err (a panic is a violation) and a successfully decoded key re-encodes to the first 32/64 decoded bytes. (hostile-solo / hostile-cluster, both feature builds) a live real node receives hostile input on its consensus, mempool and transaction ports - raw garbage, frames with lying/zero/oversized length prefixes, truncated/extended/bit-flipped valid messages of every variant, messages for the other component's port, well-formed messages with absurd fields (round 0 / u64::MAX, empty or huge vectors, short/long/unknown keys), SyncRequest for a batch digest, BatchRequest for a block digest, payload digests that are block digests, zero-length and large transactions; oracle: the panic hook recorded nothing attributable to the node, and afterwards functional probes succeed: a valid proposal for the current round is voted, SyncRequest for a stored block is answered with it, BatchRequest for a stored batch is answered with it, a client transaction comes out in a batch. Non-trivial: decoders: input that reached a decoder's logic (decoded, or is an edit of a valid encoding); hostile: hostile input that decoded to a message.",
        assumptions: &[
            "frames are limited to the codec's 8 MiB; the harness sends at most a few such frames per case",
            "panics are attributed to the node through the task-identity hooks of the simulation",
        ],
        parts,
    }
}

pub fn edit_bytes(t: &mut Tape, bytes: &mut Vec<u8>) -> &'static str {
    if bytes.is_empty() {
        bytes.extend(t.bytes(3));
        return "filled";
    }
    match t.below(7) {
        0 => {
            let i = t.below(bytes.len());
            bytes[i] ^= 1 << t.below(8);
            "bitflip"
        }
        1 => {
            let k = t.below(bytes.len());
            bytes.truncate(k);
            "truncate"
        }
        2 => {
            let k = 1 + t.below(40);
            let extra = t.bytes(k);
            bytes.extend(extra);
            "extend"
        }
        3 => {
            // rewrite an aligned u64 (likely a length field) to a small or huge value
            let i = t.below(bytes.len());
            let v: u64 = match t.below(5) {
                0 => 0,
                1 => 1,
                2 => t.range(2, 100),
                3 => u64::MAX,
                _ => 1 << t.range(20, 62),
            };
            for (k, b) in v.to_le_bytes().iter().enumerate() {
                if i + k < bytes.len() {
                    bytes[i + k] = *b;
                }
            }
            "length-rewrite"
        }
        4 => {
            let i = t.below(bytes.len());
            bytes[i] = t.below(256) as u8;
            "byte-set"
        }
        5 => {
            let i = t.below(bytes.len());
            let k = t.below(bytes.len() - i + 1).min(16);
            bytes.drain(i..i + k);
            "delete-range"
        }
        _ => {
            let i = t.below(bytes.len() + 1);
            let k = 1 + t.below(8);
            let extra = t.bytes(k);
            for (k, b) in extra.into_iter().enumerate() {
                bytes.insert(i + k, b);
            }
            "insert"
        }
    }
}

pub fn valid_consensus_messages(w: &World, t: &mut Tape) -> Vec<ConsensusMessage> {
    let all: Vec<usize> = (0..w.n).collect();
    let q = w.quorum_subset(&all).unwrap_or(all.clone());
    let r = t.range(2, 50);
    let parent = w.block(w.leader(r - 1), r - 1, QC::genesis(), None, Vec::new());
    let qc = w.qc(&parent, &q);
    let tc = w.tc(r, &q.iter().map(|i| (*i, r - 1)).collect::<Vec<_>>());
    let block = w.block(w.leader(r), r, qc.clone(), None, vec![crate::world::sha512_32(b"x")]);
    let block_tc = w.block(w.leader(r + 1), r + 1, qc.clone(), Some(tc.clone()), Vec::new());
    vec![
        ConsensusMessage::Propose(block.clone()),
        ConsensusMessage::Propose(block_tc),
        ConsensusMessage::Vote(w.vote(0, &block)),
        ConsensusMessage::Timeout(w.timeout(1 % w.n, r, qc)),
        ConsensusMessage::TC(tc),
        ConsensusMessage::SyncRequest(crate::world::sha512_32(b"y"), w.pk(0)),
    ]
}

fn run_decoders(case: &Case, _ctx: &Ctx) -> Outcome {
    let mut t = Tape::new(&case.tape);
    let mut out = Outcome::default();
    let target = t.weighted(&[3, 2, 5, 3, 2]);
    match target {
        0 | 1 => {
            // key text
            let len = match t.weighted(&[3, 2, 2]) {
                0 => *t.pick(&[0usize, 1, 2, 16, 31, 32, 33, 48, 63, 64, 65]),
                1 => t.range(0, 70) as usize,
                _ => 32 * (1 + t.below(2)),
            };
            let raw = t.bytes(len);
            let text = match t.weighted(&[5, 2, 1]) {
                0 => base64::encode(&raw),
                1 => {
                    let mut s = base64::encode(&raw);
                    if !s.is_empty() {
                        let i = t.below(s.len());
                        let c = *t.pick(&['=', '-', '_', ' ', '\n', 'A', '/', '+', '\u{e9}']);
                        s.replace_range(i..i + 1, &c.to_string());
                    }
                    s
                }
                _ => String::from_utf8_lossy(&raw).to_string(),
            };
            let decoded = base64::decode(&text).ok();
            if target == 0 {
                let r = PublicKey::decode_base64(&text);
                if let (Ok(k), Some(d)) = (&r, &decoded) {
                    if d.len() < 32 || k.0[..] != d[..32] {
                        out.violate("public-key-decode-wrong-bytes", format!("{:?} decoded to {}", text, k.encode_base64()), json!({"text": text}));
                    }
                }
                let js = serde_json::to_string(&text).unwrap();
                let _ = serde_json::from_str::<PublicKey>(&js);
                let mut bin = (text.len() as u64).to_le_bytes().to_vec();
                bin.extend(text.as_bytes());
                let _ = bincode::deserialize::<PublicKey>(&bin);
                out.class(if r.is_ok() { "public-key:decoded" } else { "public-key:error" });
            } else {
                let r = SecretKey::decode_base64(&text);
                if let (Ok(k), Some(d)) = (&r, &decoded) {
                    if d.len() < 64 || base64::decode(k.encode_base64()).unwrap()[..] != d[..64] {
                        out.violate("secret-key-decode-wrong-bytes", format!("{:?} decoded to another key", text), json!({"text": text}));
                    }
                }
                let js = serde_json::to_string(&text).unwrap();
                let _ = serde_json::from_str::<SecretKey>(&js);
                out.class(if r.is_ok() { "secret-key:decoded" } else { "secret-key:error" });
            }
            out.nontrivial = decoded.is_some();
            out.fingerprint = fnv(text.as_bytes()) ^ target as u64;
            out.sample = json!({"decoder": if target == 0 { "PublicKey" } else { "SecretKey" }, "text": text, "base64_len": decoded.map(|d| d.len())});
        }
        2 => {
            let w = World::new(&[1, 1, 1, 1], 0);
            let (mut bytes, origin) = if t.chance(1, 5) {
                let k = t.range(0, 120) as usize;
                (t.bytes(k), "random")
            } else {
                let msgs = valid_consensus_messages(&w, &mut t);
                let i = t.below(msgs.len());
                (bincode::serialize(&msgs[i]).unwrap(), ["propose", "propose-tc", "vote", "timeout", "tc", "sync-request"][i])
            };
            let mut edits = Vec::new();
            if origin != "random" {
                for _ in 0..1 + t.below(3) {
                    edits.push(edit_bytes(&mut t, &mut bytes));
                }
            }
            let r = bincode::deserialize::<ConsensusMessage>(&bytes);
            match &r {
                Ok(m) => {
                    // whatever decodes must be verifiable without panicking
                    match m {
                        ConsensusMessage::Propose(b) => {
                            let _ = b.verify(&w.ccom);
                            let _ = crypto::Hash::digest(b);
                            let _ = format!("{:?} {}", b, b);
                        }
                        ConsensusMessage::Vote(v) => {
                            let _ = v.verify(&w.ccom);
                            let _ = format!("{:?}", v);
                        }
                        ConsensusMessage::Timeout(x) => {
                            let _ = x.verify(&w.ccom);
                            let _ = format!("{:?}", x);
                        }
                        ConsensusMessage::TC(x) => {
                            let _ = x.verify(&w.ccom);
                            let _ = format!("{:?}", x);
                        }
                        ConsensusMessage::SyncRequest(d, k) => {
                            let _ = format!("{:?} {} {:?} {}", d, d, k, k);
                        }
                    }
                    out.class(&format!("consensus:{}:decoded", origin));
                }
                Err(_) => out.class(&format!("consensus:{}:error", origin)),
            }
            out.nontrivial = origin != "random" || r.is_ok();
            out.fingerprint = fnv(&bytes);
            out.sample = json!({"decoder": "ConsensusMessage", "origin": origin, "edits": edits, "len": bytes.len(), "decoded": r.is_ok()});
        }
        3 => {
            let (mut bytes, origin) = match t.below(3) {
                0 => {
                    let k = t.range(0, 80) as usize;
                    (t.bytes(k), "random")
                }
                1 => {
                    let ntx = t.below(4);
                    let batch: Vec<Vec<u8>> = (0..ntx).map(|_| { let k = t.below(12); t.bytes(k) }).collect();
                    (bincode::serialize(&MempoolMessage::Batch(batch)).unwrap(), "batch")
                }
                _ => {
                    let w = World::new(&[1, 1, 1, 1], 0);
                    let nd = t.below(3);
                    let ds: Vec<Digest> = (0..nd).map(|i| crate::world::sha512_32(&[i as u8])).collect();
                    (bincode::serialize(&MempoolMessage::BatchRequest(ds, w.pk(0))).unwrap(), "batch-request")
                }
            };
            let mut edits = Vec::new();
            if origin != "random" {
                for _ in 0..t.below(3) {
                    edits.push(edit_bytes(&mut t, &mut bytes));
                }
            }
            let r = bincode::deserialize::<MempoolMessage>(&bytes);
            if let Ok(m) = &r {
                let _ = format!("{:?}", m);
            }
            out.class(&format!("mempool:{}:{}", origin, if r.is_ok() { "decoded" } else { "error" }));
            out.nontrivial = origin != "random" || r.is_ok();
            out.fingerprint = fnv(&bytes) ^ 3;
            out.sample = json!({"decoder": "MempoolMessage", "origin": origin, "edits": edits, "len": bytes.len(), "decoded": r.is_ok()});
        }
        _ => {
            // JSON key / committee files with edited content
            use crate::config::{Committee as NodeCommittee, Secret};
            let w = World::new(&[1, 2, 1, 1], 1);
            let which = t.below(2);
            let mut text = if which == 0 {
                serde_json::to_string_pretty(&Secret { name: w.pk(0), secret: crate::world::clone_secret(&w.keys[0].1) }).unwrap()
            } else {
                serde_json::to_string_pretty(&NodeCommittee { consensus: w.ccom.clone(), mempool: w.mcom.clone() }).unwrap()
            };
            let mut bytes = text.clone().into_bytes();
            let mut edits = Vec::new();
            for _ in 0..1 + t.below(2) {
                match t.below(3) {
                    0 => edits.push(edit_bytes(&mut t, &mut bytes)),
                    _ => {
                        // shorten a quoted (base64 / address) string
                        let quotes: Vec<usize> = bytes.iter().enumerate().filter(|(_, b)| **b == b'"').map(|(i, _)| i).collect();
                        if quotes.len() >= 2 {
                            let qi = t.below(quotes.len() / 2) * 2;
                            let (a, b) = (quotes[qi] + 1, quotes[qi + 1]);
                            if b > a {
                                let keep = t.below(b - a + 1);
                                bytes.drain(a + keep..b);
                                edits.push("string-shortened");
                            }
                        }
                    }
                }
            }
            text = String::from_utf8_lossy(&bytes).to_string();
            let ok = if which == 0 {
                serde_json::from_str::<Secret>(&text).is_ok()
            } else {
                serde_json::from_str::<NodeCommittee>(&text).is_ok()
            };
            out.class(&format!("json:{}:{}", if which == 0 { "secret" } else { "committee" }, if ok { "decoded" } else { "error" }));
            out.nontrivial = true;
            out.fingerprint = fnv(text.as_bytes());
            out.sample = json!({"decoder": if which == 0 { "Secret json" } else { "Committee json" }, "edits": edits, "decoded": ok});
        }
    }
    out
}
