//! C16 — the real `Store` (RocksDB on tmpfs) under concurrent handles, against a sequential reference map.
use crate::runner::{Ctx, Outcome, Part, PropDef};
use crate::sim;
use crate::tape::{fnv, Case, Tape};
use serde_json::{json, Value};
use std::collections::HashMap;
use std::sync::{Arc, Mutex};
use store::Store;

pub fn def() -> PropDef {
    PropDef {
        id: "C16",
        level: "exploration",
        rule: "proptest tape -> 1..6 concurrent tasks with cloned handles of one real Store, each with a list of 1..25 operations write / read / notify_read over 1..4 keys (values unique per write), tape-chosen yields between operations, seeded scheduler; notify_reads are issued (enqueued) in place and awaited by helper tasks so that several waiters can be pending per key; optionally all handles are dropped and the store is reopened on the same path, then every key is read. Oracle: operations are numbered at issue; the store serialises commands in channel order, which equals issue order (fewer than 100 outstanding, cooperative budgeting disabled for the workers); replaying the log on a map: read = latest earlier write or none; notify_read = latest earlier write if any, else the first later write to the key, else still pending at quiescence; after reopen every written key reads its last value. Non-trivial: >= 2 waiters were pending on a key that was then written from another handle; distinct by op-list hash. (backlog) one task issues 90..260 writes back to back over 1..40 keys - more than the store's channel (capacity 100) holds -, and only after the last write returned 1..3 tasks with cloned handles read / notify_read the last-written, the first-written and random keys: each must give the last value written to its key. Non-trivial: more than 100 writes.",
        assumptions: &["concurrent-ops part: fewer than 100 commands outstanding, so that issue order equals the order in the store's channel (the backlog part covers the full channel with a happens-after oracle)"],
        parts: vec![
            Part { name: "concurrent-ops", cfg_len: 1, tape_max: 260, quick: 50_000, thorough: 1_500_000, max_shrink_iters: 500, run },
            Part { name: "backlog", cfg_len: 1, tape_max: 40, quick: 3_000, thorough: 100_000, max_shrink_iters: 100, run: run_backlog },
        ],
    }
}

/// Backlog part: more commands than the store's channel holds (capacity 100). One task writes
/// 90..260 values back to back (keys from a small set, so later writes overwrite earlier ones),
/// each `write().await` returning before the next is issued; only after the last one returned,
/// tasks with cloned handles read (and notify-read) the keys. Every such read is issued after the
/// writes returned, so it must see the last value written to its key - whatever the channel's fill.
fn run_backlog(case: &Case, _ctx: &Ctx) -> Outcome {
    let mut t = Tape::new(&case.tape);
    let nwrites = t.range(90, 260) as usize;
    let nkeys = t.range(1, 40) as u8;
    let writes: Vec<(u8, u32)> = (0..nwrites).map(|i| (t.below(nkeys as usize) as u8, i as u32 + 1)).collect();
    let nreaders = t.range(1, 3) as usize;
    let yield_before_read = t.chance(1, 2);
    let mut last: HashMap<u8, u32> = HashMap::new();
    for (k, v) in &writes {
        last.insert(*k, *v);
    }
    // keys to read: the last written key first (the most likely to be overtaken), then others
    let mut probe: Vec<u8> = vec![writes[nwrites - 1].0, writes[0].0];
    for _ in 0..4 {
        probe.push(t.below(nkeys as usize) as u8);
    }
    let dir = sim::scratch_dir("store-backlog");
    let _g = sim::ScratchGuard(dir.clone());
    let path = format!("{}/db", dir);
    let (writes2, probe2) = (writes.clone(), probe.clone());
    let got: Vec<(usize, u8, &'static str, Option<Vec<u8>>)> = sim::run_sim(case.cfg.first().copied().unwrap_or(0) as u64, || async move {
        let store = Store::new(&path).expect("open store");
        let mut w = store.clone();
        let writer = tokio::spawn(async move {
            for (k, v) in writes2 {
                w.write(key(k), val(v)).await;
            }
        });
        writer.await.expect("writer");
        if yield_before_read {
            tokio::task::yield_now().await;
        }
        let mut tasks = Vec::new();
        for r in 0..nreaders {
            let mut s = store.clone();
            let keys = probe2.clone();
            tasks.push(tokio::spawn(async move {
                let mut out = Vec::new();
                for (j, k) in keys.into_iter().enumerate() {
                    if (j + r) % 2 == 0 {
                        out.push((r, k, "read", s.read(key(k)).await.ok().flatten()));
                    } else {
                        // notify_read of a written key completes at once with the latest value
                        let v = tokio::time::timeout(std::time::Duration::from_secs(5), s.notify_read(key(k))).await;
                        out.push((r, k, "notify_read", v.ok().and_then(|x| x.ok())));
                    }
                }
                out
            }));
        }
        let mut all = Vec::new();
        for h in tasks {
            all.extend(h.await.expect("reader"));
        }
        all
    });
    let mut out = Outcome::default();
    let hist = json!({"writes": nwrites, "keys": nkeys, "readers": nreaders, "last_write": {"key": writes[nwrites - 1].0, "value": writes[nwrites - 1].1}});
    for (r, k, kind, v) in &got {
        let want = last.get(k).map(|x| val(*x));
        if want.is_none() {
            // never written: read returns none, notify_read stays pending (timed out)
            if v.is_some() {
                out.violate("backlog-read-of-unwritten-key", format!("reader {}: {} of a key that was never written returned a value", r, kind), hist.clone());
            }
            continue;
        }
        if *v != want {
            out.violate(
                "read-after-returned-write-misses-it",
                format!("reader {}: {} of key {} issued after all {} writes had returned gave {} instead of the last value written", r, kind, k, nwrites, if v.is_none() { "nothing" } else { "an older value" }),
                hist.clone(),
            );
        }
    }
    if nwrites > 100 {
        out.class("more-writes-than-channel-capacity");
    }
    out.nontrivial = nwrites > 100;
    out.fingerprint = fnv(format!("{:?}|{}|{:?}", writes, nreaders, probe).as_bytes());
    out.sample = json!({"writes": nwrites, "keys": nkeys, "readers": nreaders, "probed_keys": probe});
    out
}

#[derive(Clone, Debug)]
enum Op {
    Write(u8, u32),
    Read(u8),
    Notify(u8),
    Yield,
}

#[derive(Clone, Debug)]
enum Res {
    Read(Option<Vec<u8>>),
    Notified(Vec<u8>),
}

#[derive(Default)]
struct Rec {
    /// issue log: (task, op) in issue order
    issued: Vec<(usize, Op)>,
    /// results by issue index
    results: HashMap<usize, Res>,
}

fn key(k: u8) -> Vec<u8> {
    vec![b'k', k]
}

fn val(v: u32) -> Vec<u8> {
    let mut x = b"value-".to_vec();
    x.extend(v.to_le_bytes());
    x
}

fn run(case: &Case, _ctx: &Ctx) -> Outcome {
    let mut t = Tape::new(&case.tape);
    let ntasks = t.range(1, 6) as usize;
    let nkeys = t.range(1, 4) as u8;
    let mut counter = 0u32;
    let mut lists: Vec<Vec<Op>> = Vec::new();
    for _ in 0..ntasks {
        let n = t.range(1, 25) as usize;
        let mut ops = Vec::new();
        for _ in 0..n {
            let k = t.below(nkeys as usize) as u8;
            let op = match t.weighted(&[4, 3, 3, 2]) {
                0 => {
                    counter += 1;
                    Op::Write(k, counter)
                }
                1 => Op::Read(k),
                2 => Op::Notify(k),
                _ => Op::Yield,
            };
            ops.push(op);
        }
        lists.push(ops);
    }
    let reopen = t.chance(1, 3);
    let dir = sim::scratch_dir("store");
    let _g = sim::ScratchGuard(dir.clone());
    let path = format!("{}/db", dir);
    let rec: Arc<Mutex<Rec>> = Arc::new(Mutex::new(Rec::default()));
    let rec2 = rec.clone();
    let lists2 = lists.clone();
    let path2 = path.clone();
    let reopened: Option<Vec<(u8, Option<Vec<u8>>)>> = sim::run_sim(case.cfg.first().copied().unwrap_or(0) as u64, || async move {
        let store = Store::new(&path2).expect("open store");
        let mut handles = Vec::new();
        for (ti, ops) in lists2.into_iter().enumerate() {
            let mut s = store.clone();
            let rec = rec2.clone();
            handles.push(tokio::spawn(tokio::task::unconstrained(async move {
                for op in ops {
                    match op.clone() {
                        Op::Yield => tokio::task::yield_now().await,
                        Op::Write(k, v) => {
                            rec.lock().unwrap().issued.push((ti, op));
                            s.write(key(k), val(v)).await;
                        }
                        Op::Read(k) => {
                            let idx = {
                                let mut r = rec.lock().unwrap();
                                r.issued.push((ti, op));
                                r.issued.len() - 1
                            };
                            let r = s.read(key(k)).await;
                            if let Ok(v) = r {
                                rec.lock().unwrap().results.insert(idx, Res::Read(v));
                            }
                        }
                        Op::Notify(k) => {
                            let idx = {
                                let mut r = rec.lock().unwrap();
                                r.issued.push((ti, op));
                                r.issued.len() - 1
                            };
                            let mut s2 = s.clone();
                            let mut fut = Box::pin(async move { s2.notify_read(key(k)).await });
                            // enqueue the command now (first poll), await the answer elsewhere
                            match futures::poll!(&mut fut) {
                                std::task::Poll::Ready(Ok(v)) => {
                                    rec.lock().unwrap().results.insert(idx, Res::Notified(v));
                                }
                                std::task::Poll::Ready(Err(_)) => {}
                                std::task::Poll::Pending => {
                                    let rec = rec.clone();
                                    tokio::spawn(async move {
                                        if let Ok(v) = fut.await {
                                            rec.lock().unwrap().results.insert(idx, Res::Notified(v));
                                        }
                                    });
                                }
                            }
                        }
                    }
                }
            })));
        }
        for h in handles {
            let _ = h.await;
        }
        // quiescence: let the store answer everything that was enqueued
        tokio::time::sleep(sim::ms(5)).await;
        if !reopen {
            return None;
        }
        drop(store);
        None::<()>;
        Some(())
    })
    .map(|_| Vec::new());
    // reopen in a second simulation (the first runtime is gone, so every handle and the DB are dropped)
    let reopened = if reopened.is_some() {
        let path3 = path.clone();
        Some(sim::run_sim(1, || async move {
            let mut store = Store::new(&path3).expect("reopen store");
            let mut out = Vec::new();
            for k in 0..nkeys {
                out.push((k, store.read(key(k)).await.ok().flatten()));
            }
            out
        }))
    } else {
        None
    };
    let rec = rec.lock().unwrap();
    let mut out = Outcome::default();
    // reference
    let mut map: HashMap<u8, Vec<u8>> = HashMap::new();
    let mut pending: HashMap<u8, Vec<usize>> = HashMap::new();
    let mut expect: HashMap<usize, Option<Res>> = HashMap::new(); // None = must still be pending
    let mut max_waiters_served = 0usize;
    for (idx, (task, op)) in rec.issued.iter().enumerate() {
        match op {
            Op::Write(k, v) => {
                map.insert(*k, val(*v));
                if let Some(ws) = pending.remove(k) {
                    let other = ws.iter().filter(|w| rec.issued[**w].0 != *task).count();
                    if ws.len() >= 2 && other >= 1 {
                        max_waiters_served = max_waiters_served.max(ws.len());
                    }
                    for w in ws {
                        expect.insert(w, Some(Res::Notified(val(*v))));
                    }
                }
            }
            Op::Read(k) => {
                expect.insert(idx, Some(Res::Read(map.get(k).cloned())));
            }
            Op::Notify(k) => match map.get(k) {
                Some(v) => {
                    expect.insert(idx, Some(Res::Notified(v.clone())));
                }
                None => {
                    pending.entry(*k).or_default().push(idx);
                    expect.insert(idx, None);
                }
            },
            Op::Yield => {}
        }
    }
    let render = |r: &Option<Res>| match r {
        None => "pending".to_string(),
        Some(Res::Read(None)) => "read -> none".to_string(),
        Some(Res::Read(Some(v))) => format!("read -> {:?}", &v[6..]),
        Some(Res::Notified(v)) => format!("notified -> {:?}", &v[6..]),
    };
    let hist = || {
        let ops: Vec<Value> = rec
            .issued
            .iter()
            .enumerate()
            .map(|(i, (t, op))| json!({"#": i, "task": t, "op": format!("{:?}", op), "got": render(&rec.results.get(&i).cloned()), "expected": expect.get(&i).map(render)}))
            .collect();
        json!({"tasks": ntasks, "keys": nkeys, "issued": ops})
    };
    for (idx, want) in &expect {
        let got = rec.results.get(idx).cloned();
        let same = match (want, &got) {
            (None, None) => true,
            (Some(Res::Read(a)), Some(Res::Read(b))) => a == b,
            (Some(Res::Notified(a)), Some(Res::Notified(b))) => a == b,
            _ => false,
        };
        if !same {
            let sig = match (want, &got) {
                (None, Some(_)) => "notify-read-completed-without-a-write",
                (Some(Res::Notified(_)), None) => "notify-read-missed-a-write",
                (Some(Res::Notified(_)), Some(_)) => "notify-read-wrong-value",
                (Some(Res::Read(_)), Some(_)) => "read-not-latest-write",
                _ => "operation-result-missing",
            };
            out.violate(sig, format!("operation #{} ({:?}): expected {}, got {}", idx, rec.issued[*idx].1, render(want), render(&got)), hist());
            break;
        }
    }
    if let Some(after) = &reopened {
        for (k, v) in after {
            if *v != map.get(k).cloned() {
                out.violate("data-lost-or-changed-after-reopen", format!("key {} reads {:?} after reopen, last written {:?}", k, v.as_ref().map(|x| x[6..].to_vec()), map.get(k).map(|x| x[6..].to_vec())), hist());
            }
        }
        out.class("reopened");
    }
    if max_waiters_served >= 2 {
        out.class("multiple-waiters-woken-by-another-handle");
    }
    if pending.values().any(|v| !v.is_empty()) {
        out.class("waiter-still-pending-at-end");
    }
    out.class(&format!("tasks={}", ntasks));
    out.nontrivial = max_waiters_served >= 2;
    out.fingerprint = fnv(format!("{:?}", lists).as_bytes());
    out.sample = json!({"tasks": ntasks, "keys": nkeys, "reopen": reopen, "op_lists": lists.iter().map(|l| l.iter().take(10).map(|o| format!("{:?}", o)).collect::<Vec<_>>()).collect::<Vec<_>>()});
    out
}
