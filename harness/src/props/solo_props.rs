//! Parts of properties that run on the solo rig (placeholder until the rig is wired in).
use crate::runner::{Ctx, Outcome, Part};
use crate::tape::Case;

fn noop(_: &Case, _: &Ctx) -> Outcome {
    Outcome::default()
}

fn stub(name: &'static str) -> Part {
    Part { name, cfg_len: 0, tape_max: 1, quick: 0, thorough: 0, max_shrink_iters: 0, run: noop }
}

pub fn c04_part() -> Part { stub("non-interference") }
pub fn c09_part() -> Part { stub("solo") }
pub fn c19_part() -> Part { stub("solo") }
pub fn c20_part() -> Part { stub("solo-store") }
