//! Properties decided on the solo rig: oracles over the recorded history of one real node.
use crate::refvalid;
use crate::rig::{self, HEv};
use crate::runner::{Ctx, Outcome, Part, PropDef};
use crate::solo::{self, cert_available, is_placeholder, render_hist, run_solo, sample_of, shown_to, Knobs, Profile, SoloRun};
use crate::tape::{fnv, Case};
use consensus::{Block, ConsensusMessage, QC};
use crypto::{Digest, Hash as _};
use serde_json::{json, Value};
use std::collections::{BTreeMap, BTreeSet, HashMap, HashSet};

const TAPE: usize = 260;

fn part(name: &'static str, quick: u64, thorough: u64, run: crate::runner::RunFn) -> Part {
    Part { name, cfg_len: solo::CFG_LEN, tape_max: TAPE, quick, thorough, max_shrink_iters: 250, run }
}

fn knobs() -> Knobs {
    Knobs::default()
}

fn fingerprint(run: &SoloRun) -> u64 {
    // what the node did: sequence of (kind, round) of its outputs and commits
    let mut s = String::new();
    for e in &run.hist {
        match &e.ev {
            HEv::Out { msg, .. } => match &**msg {
                ConsensusMessage::Propose(b) => s.push_str(&format!("P{},", b.round)),
                ConsensusMessage::Vote(v) => s.push_str(&format!("V{},", v.round)),
                ConsensusMessage::Timeout(t) => s.push_str(&format!("T{}/{},", t.round, t.high_qc.round)),
                ConsensusMessage::TC(t) => s.push_str(&format!("C{},", t.round)),
                ConsensusMessage::SyncRequest(..) => s.push_str("S,"),
            },
            HEv::Commit(b) => s.push_str(&format!("K{},", b.round)),
            _ => {}
        }
    }
    s.push_str(&format!("{:?}{}", run.w.stakes, run.sut));
    fnv(s.as_bytes())
}

fn hist_json(run: &SoloRun) -> Value {
    json!({"n": run.w.n, "stakes": run.w.stakes, "sut": run.sut, "script": run.steps, "history": render_hist(run, 400)})
}

fn commits(run: &SoloRun) -> Vec<(u64, u64, std::rc::Rc<Block>)> {
    run.hist
        .iter()
        .filter_map(|e| match &e.ev {
            HEv::Commit(b) => Some((e.seq, e.t_us, b.clone())),
            _ => None,
        })
        .collect()
}

/// Votes signed by the SUT that reached the wire: (seq, t_us, round, digest).
fn wire_votes(run: &SoloRun) -> Vec<(u64, u64, u64, Digest)> {
    let me = run.w.pk(run.sut);
    let mut out = Vec::new();
    for e in &run.hist {
        if let HEv::Out { msg, .. } = &e.ev {
            if let ConsensusMessage::Vote(v) = &**msg {
                if v.author == me {
                    out.push((e.seq, e.t_us, v.round, v.hash.clone()));
                }
            }
        }
    }
    out
}

/// The SUT's own signature inside QCs it put into its proposals: (seq of the proposal, round, digest).
fn embedded_votes(run: &SoloRun) -> Vec<(u64, u64, Digest)> {
    let me = run.w.pk(run.sut);
    let mut out = Vec::new();
    let mut seen = HashSet::new();
    for e in &run.hist {
        if let HEv::Out { msg, .. } = &e.ev {
            if let ConsensusMessage::Propose(b) = &**msg {
                if b.author == me {
                    let d = refvalid::vote_digest(&b.qc.hash, b.qc.round);
                    for (k, sig) in &b.qc.votes {
                        if *k == me && refvalid::sig_ok(sig, &d, &me) && seen.insert((b.qc.round, b.qc.hash.clone())) {
                            out.push((e.seq, b.qc.round, b.qc.hash.clone()));
                        }
                    }
                }
            }
        }
    }
    out
}

fn own_timeouts(run: &SoloRun) -> Vec<(u64, u64, u64, QC)> {
    let me = run.w.pk(run.sut);
    let mut out: Vec<(u64, u64, u64, QC)> = Vec::new();
    for e in &run.hist {
        if let HEv::Out { msg, .. } = &e.ev {
            if let ConsensusMessage::Timeout(t) = &**msg {
                if t.author == me {
                    // one broadcast = several frames; keep the first frame of each distinct (instant, round)
                    if !out.iter().any(|(_, tu, r, _)| *tu == e.t_us && *r == t.round) {
                        out.push((e.seq, e.t_us, t.round, t.high_qc.clone()));
                    }
                }
            }
        }
    }
    out
}

fn first_delivery_of_block(run: &SoloRun) -> HashMap<Digest, u64> {
    let mut m = HashMap::new();
    for e in &run.hist {
        match &e.ev {
            HEv::In { msg, .. } => {
                if let ConsensusMessage::Propose(b) = &**msg {
                    m.entry(b.digest()).or_insert(e.seq);
                }
            }
            HEv::Out { msg, .. } => {
                if let ConsensusMessage::Propose(b) = &**msg {
                    m.entry(b.digest()).or_insert(e.seq);
                }
            }
            _ => {}
        }
    }
    m
}

/// Every block with digest `d` the node could have seen before `before` (the embedded TC and the
/// QC's vote list are not covered by the digest, so one digest may have several variants).
fn variants_before(run: &SoloRun, d: &Digest, before: u64) -> Vec<Block> {
    let mut out = Vec::new();
    for e in &run.hist {
        if e.seq >= before {
            break;
        }
        let b = match &e.ev {
            HEv::In { msg, .. } | HEv::Out { msg, .. } => match &**msg {
                ConsensusMessage::Propose(b) => b,
                _ => continue,
            },
            _ => continue,
        };
        if b.digest() == *d {
            out.push(b.clone());
        }
    }
    out
}

fn no_panic(run: &SoloRun, out: &mut Outcome) -> bool {
    // A panic of the node makes every other observation unreliable; it is C15's business. The
    // other properties skip such a case (counted) instead of reporting the same root cause again.
    if run.panics.iter().any(|p| p.node == run.sut_id) {
        out.class("skipped:node-panicked");
        return false;
    }
    true
}

// ------------------------------------------------------------------------------------------ C02

pub fn c02_def() -> PropDef {
    PropDef {
        id: "C02",
        level: "exploration",
        rule: crate::props::universal::with_rule("proptest (cfg: committee 4..7, stake profile, keys, which authority is the real node, scheduler seed; tape: script) -> solo rig, 'chains' and 'mixed' profiles: puppets holding >= quorum craft certified chains with round gaps (TC-justified or not), forks on older parents, orphaned certified blocks, children-first delivery answered through the sync path promptly / late / never, interleaved with timeouts and rounds led by the real node. Oracle on the node's commit channel D1,D2,...: D1's parent is the genesis placeholder, D(i+1).parent = digest(D(i)), no D(i) is the placeholder (round 0 / default author), no digest twice. (lagging-application) a straight certified chain of 1 020..1 140 blocks (the node's own rounds skipped through a TC) is delivered while the harness task that plays the application reads nothing from the commit channel (capacity 1 000 in node.rs), then it resumes: the deliveries must be exactly the committed prefix of the chain, in order. Non-trivial: a commit whose ancestor walk ran (a committed block whose round is more than one above the previously committed round) or >= 3 commits after a fork/gap step; distinct by the node's output/commit sequence hash."),
        assumptions: &["consensus nodes are not restarted (the code does not persist voting state; no listed property quantifies over restarts)"],
        parts: vec![
            part("chains", 20_000, 400_000, |c, x| c02_run(c, x, Profile::Chains)),
            part("mixed", 8_000, 150_000, |c, x| c02_run(c, x, Profile::Mixed)),
            crate::props::universal::c02_part(),
            Part { name: "lagging-application", cfg_len: 1, tape_max: 8, quick: 16, thorough: 320, max_shrink_iters: 3, run: c02_lagging_run },
        ],
    }
}

fn c02_run(case: &Case, _ctx: &Ctx, profile: Profile) -> Outcome {
    let run = run_solo(case, profile, &knobs());
    let mut out = Outcome::default();
    out.sample = sample_of(&run);
    out.fingerprint = fingerprint(&run);
    if !no_panic(&run, &mut out) {
        return out;
    }
    let cs = commits(&run);
    let mut prev: Option<Digest> = None;
    let mut prev_round = 0u64;
    let mut seen = HashSet::new();
    let mut walked = false;
    for (i, (_, _, b)) in cs.iter().enumerate() {
        let d = b.digest();
        if is_placeholder(b) {
            out.violate("genesis-placeholder-delivered", format!("delivery #{} is the genesis placeholder (round {}, default author)", i + 1, b.round), hist_json(&run));
            continue;
        }
        if !seen.insert(d.clone()) {
            out.violate("block-delivered-twice", format!("delivery #{}: block of round {} was already delivered", i + 1, b.round), hist_json(&run));
            continue;
        }
        match &prev {
            None => {
                if !refvalid::is_genesis_qc(&b.qc) {
                    out.violate("first-delivery-not-child-of-genesis", format!("first delivered block (round {}) does not extend genesis", b.round), hist_json(&run));
                }
            }
            Some(p) => {
                if b.qc.hash != *p {
                    let sig = if b.round <= prev_round { "delivery-out-of-order" } else { "delivery-skips-ancestor" };
                    out.violate(sig, format!("delivery #{} (round {}) is not a child of the previous delivery (round {})", i + 1, b.round, prev_round), hist_json(&run));
                }
            }
        }
        if b.round > prev_round + 1 && prev.is_some() {
            walked = true;
        }
        prev = Some(d);
        prev_round = b.round;
    }
    // gap between consecutive committed rounds within one instant means the ancestor walk ran
    let gapped = cs.windows(2).any(|w| w[0].1 == w[1].1);
    if gapped {
        out.class("ancestors-committed-in-one-instant");
    }
    if walked {
        out.class("round-gap-between-deliveries");
    }
    out.class(&format!("commits={}", match cs.len() { 0 => "0", 1..=2 => "1-2", 3..=9 => "3-9", _ => "10+" }));
    let forky = run.stats.keys().any(|k| k.starts_with("fork-gap") || k == "children-first");
    out.nontrivial = gapped || walked || (cs.len() >= 3 && forky);
    out
}

// ------------------------------------------------------------------------------------------ C03

pub fn c03_def() -> PropDef {
    PropDef {
        id: "C03",
        level: "exploration",
        rule: crate::props::universal::with_rule("proptest cfg+tape -> solo rig, 'voting' and 'mixed' profiles: valid proposals for the node's round, second proposals for the same round, proposals after the node timed out (virtual time advanced past the timeout), gapped proposals with safe / unsafe / absent TCs, forks on older parents, wrong-leader proposals, stale and future votes/timeouts/TCs, blocks arriving through the sync and payload loop-back paths. Oracle over messages signed by the node (Vote frames it sends + its own signature inside QCs of its proposals): (i) at most one voted digest per round; (ii) wire vote rounds strictly increase over strictly increasing instants; (iii) no vote for round r emitted after its Timeout for a round >= r, and no vote at all for a block first delivered after such a timeout; (iv) every voted block is known and has qc.round+1 = round, or a TC with tc.round+1 = round and qc.round >= max(tc high-QC rounds); and qc.round < round. Non-trivial: the node cast >= 2 votes and the history contains a refusal opportunity (equivocation, proposal after its timeout, unsafe gap / TC); distinct by output-sequence hash."),
        assumptions: &["zero connect latency, so a frame is written in the instant it is created"],
        parts: vec![
            part("voting", 20_000, 400_000, |c, x| c03_run(c, x, Profile::Voting)),
            part("mixed", 6_000, 120_000, |c, x| c03_run(c, x, Profile::Mixed)),
            crate::props::universal::c03_part(),
        ],
    }
}

fn c03_run(case: &Case, _ctx: &Ctx, profile: Profile) -> Outcome {
    let run = run_solo(case, profile, &knobs());
    let mut out = Outcome::default();
    out.sample = sample_of(&run);
    out.fingerprint = fingerprint(&run);
    if !no_panic(&run, &mut out) {
        return out;
    }
    let votes = wire_votes(&run);
    let emb = embedded_votes(&run);
    let touts = own_timeouts(&run);
    // (i) one digest per round
    let mut per_round: BTreeMap<u64, BTreeSet<Vec<u8>>> = BTreeMap::new();
    for (_, _, r, d) in &votes {
        per_round.entry(*r).or_default().insert(d.0.to_vec());
    }
    for (_, r, d) in &emb {
        per_round.entry(*r).or_default().insert(d.0.to_vec());
    }
    for (r, set) in &per_round {
        if set.len() > 1 {
            out.violate("two-votes-in-one-round", format!("the node signed votes for {} different blocks in round {}", set.len(), r), hist_json(&run));
        }
    }
    // (ii) strictly increasing rounds across strictly increasing instants
    let mut last: Option<(u64, u64)> = None; // (t_us, max round so far at earlier instants)
    let mut max_before = 0u64;
    let mut cur_t = 0u64;
    let mut cur_max = 0u64;
    for (_, t, r, _) in &votes {
        if last.is_none() || *t != cur_t {
            max_before = max_before.max(cur_max);
            cur_t = *t;
            cur_max = 0;
            last = Some((*t, max_before));
        }
        if *r <= max_before && max_before != 0 {
            out.violate("vote-round-not-increasing", format!("vote for round {} emitted after a vote for round {}", r, max_before), hist_json(&run));
        }
        cur_max = cur_max.max(*r);
    }
    // (iii) no vote after a timeout for the same or a higher round
    let first_seen = first_delivery_of_block(&run);
    for (ts, tt, tr, _) in &touts {
        for (vs, vt, vr, _) in &votes {
            if vt > tt && vs > ts && vr <= tr {
                out.violate("vote-after-timeout", format!("vote for round {} emitted after the node's timeout for round {}", vr, tr), hist_json(&run));
            }
        }
        for (r, d) in votes.iter().map(|(_, _, r, d)| (*r, d)).chain(emb.iter().map(|(_, r, d)| (*r, d))) {
            if r <= *tr {
                if let Some(s) = first_seen.get(d) {
                    if s > ts {
                        out.violate("vote-after-timeout", format!("the node voted in round {} for a block it first received after its timeout for round {}", r, tr), hist_json(&run));
                    }
                }
            }
        }
    }
    // (iv) safe extension
    let all_votes: Vec<(u64, u64, Digest)> = votes.iter().map(|(s, _, r, d)| (*s, *r, d.clone())).chain(emb.iter().map(|(s, r, d)| (*s, *r, d.clone()))).collect();
    for (seq, r, d) in all_votes {
        let vars = variants_before(&run, &d, seq);
        if vars.is_empty() {
            out.violate("vote-for-unknown-block", format!("vote in round {} for a digest that no delivered or own proposal has", r), hist_json(&run));
            continue;
        }
        let safe = |b: &Block| {
            let by_qc = b.qc.round + 1 == b.round;
            // "carries a timeout certificate": a reference-valid one
            let by_tc = b.tc.as_ref().map_or(false, |tc| tc.round + 1 == b.round && tc.votes.iter().all(|(_, _, hr)| b.qc.round >= *hr) && refvalid::ref_tc(&run.w, tc).is_ok());
            by_qc || by_tc
        };
        let b = &vars[0];
        if b.round != r {
            out.violate("vote-round-differs-from-block", format!("vote says round {} but the block has round {}", r, b.round), hist_json(&run));
        }
        if !vars.iter().any(|b| safe(b)) {
            out.violate("vote-for-unsafe-extension", format!("voted block of round {} has qc round {} and tc {:?}", b.round, b.qc.round, b.tc.as_ref().map(|t| (t.round, t.high_qc_rounds()))), hist_json(&run));
        }
        if b.qc.round >= b.round {
            out.violate("vote-for-block-not-above-its-qc", format!("voted block of round {} carries a QC of round {}", b.round, b.qc.round), hist_json(&run));
        }
    }
    let nvotes = votes.len() + emb.len();
    let refusal = run.stats.contains_key("equivocate")
        || run.stats.contains_key("fork-gap-tc-unsafe")
        || run.stats.contains_key("fork-gap-tc-none")
        || run.stats.contains_key("fork-gap-tc-forged")
        || (!touts.is_empty() && nvotes > 0);
    if run.stats.contains_key("equivocate") {
        out.class("equivocation-offered");
    }
    if !touts.is_empty() {
        out.class("node-timed-out");
    }
    if run.stats.contains_key("fork-gap-tc-unsafe") {
        out.class("unsafe-tc-offered");
    }
    if !emb.is_empty() {
        out.class("own-vote-seen-inside-own-qc");
    }
    out.class(&format!("votes={}", match nvotes { 0 => "0", 1 => "1", 2..=5 => "2-5", _ => "6+" }));
    out.nontrivial = nvotes >= 2 && refusal;
    out
}

// ------------------------------------------------------------------------------------------ C05

pub fn c05_def() -> PropDef {
    PropDef {
        id: "C05",
        level: "exploration",
        rule: crate::props::universal::with_rule("proptest cfg+tape -> solo rig, 'chains' and 'mixed' profiles (chain shapes of C02 plus near-misses: certified child with a round gap, consecutive child never certified, TC only, votes below quorum, QC shown only inside a timeout's high-QC). Oracle: for each block C on the commit channel at log position p, Shown = reference-valid QCs inside frames delivered to the node before p, plus QCs derivable from quorum-many valid votes delivered to it (counting its own stake); C is justified iff some shown QC certifies a known block B1 with B1.parent = C and B1.round = C.round+1, or C is an ancestor of a justified block delivered at or before the same instant. Every commit must be justified (genesis placeholder deliveries are C02's business and ignored). Non-trivial: >= 1 commit and >= 1 near-miss stimulus (gap / fork / TC / sub-quorum votes) in the history."),
        assumptions: &["the node's own vote is counted toward QCs it could have assembled (generous, hence sound)"],
        parts: vec![
            part("chains", 15_000, 300_000, |c, x| c05_run(c, x, Profile::Chains)),
            part("mixed", 6_000, 120_000, |c, x| c05_run(c, x, Profile::Mixed)),
            crate::props::universal::c05_part(),
        ],
    }
}

fn ancestors_of<'a>(blocks: &'a HashMap<Digest, Block>, b: &Block) -> Vec<Digest> {
    let mut out = Vec::new();
    let mut cur = b.qc.hash.clone();
    let mut guard = 0;
    while let Some(p) = blocks.get(&cur) {
        out.push(cur.clone());
        cur = p.qc.hash.clone();
        guard += 1;
        if guard > 10_000 {
            break;
        }
    }
    out
}

fn c05_run(case: &Case, _ctx: &Ctx, profile: Profile) -> Outcome {
    let run = run_solo(case, profile, &knobs());
    let mut out = Outcome::default();
    out.sample = sample_of(&run);
    out.fingerprint = fingerprint(&run);
    if !no_panic(&run, &mut out) {
        return out;
    }
    let shown = shown_to(&run);
    let cs = commits(&run);
    let w = &run.w;
    // QCs derivable from delivered votes: (position at which quorum was reached, hash, round)
    let mut derived: Vec<(u64, Digest, u64)> = Vec::new();
    {
        let own = w.stakes[run.sut] as u64;
        let mut acc: HashMap<(Digest, u64), BTreeSet<usize>> = HashMap::new();
        for (s, v) in &shown.votes {
            if let Some(i) = w.index_of(&v.author) {
                if i == run.sut {
                    continue;
                }
                let set = acc.entry((v.hash.clone(), v.round)).or_default();
                set.insert(i);
                let members: Vec<usize> = set.iter().copied().collect();
                if w.stake_of(&members) + own >= w.quorum() {
                    derived.push((*s, v.hash.clone(), v.round));
                }
            }
        }
    }
    let direct = |c: &Block, before: u64| -> bool {
        let cd = c.digest();
        let certifies = |hash: &Digest, round: u64| -> bool {
            match run.blocks.get(hash) {
                Some(b1) => b1.round == round && b1.qc.hash == cd && b1.round == c.round + 1,
                None => false,
            }
        };
        shown.qcs.iter().any(|(s, q)| *s < before && certifies(&q.hash, q.round)) || derived.iter().any(|(s, h, r)| *s < before && certifies(h, *r))
    };
    let mut justified: Vec<bool> = Vec::new();
    for (seq, _, c) in &cs {
        justified.push(!is_placeholder(c) && direct(c, *seq));
    }
    for (i, (_, t, c)) in cs.iter().enumerate() {
        if is_placeholder(c) || justified[i] {
            continue;
        }
        let cd = c.digest();
        let covered = cs.iter().enumerate().any(|(j, (_, t2, c2))| {
            justified[j] && (j <= i || t2 == t) && ancestors_of(&run.blocks, c2).contains(&cd)
        });
        if !covered {
            out.violate(
                "commit-without-consecutive-certified-child",
                format!("block of round {} was committed but no QC shown to the node certifies a child of round {}, and it is no ancestor of a justified commit", c.round, c.round + 1),
                hist_json(&run),
            );
        }
    }
    let near_miss = run.stats.keys().any(|k| k.starts_with("fork-gap") || k == "timeouts-to-sut" || k == "tc-to-sut" || k == "children-first");
    out.class(&format!("commits={}", match cs.len() { 0 => "0", 1..=2 => "1-2", _ => "3+" }));
    if near_miss {
        out.class("near-miss-offered");
    }
    out.nontrivial = !cs.is_empty() && near_miss;
    out
}

// ------------------------------------------------------------------------------------------ C08

pub fn c08_def() -> PropDef {
    PropDef {
        id: "C08",
        level: "exploration",
        rule: crate::props::universal::with_rule("proptest cfg+tape -> solo rig, 'payloads' profile: proposals whose payload has 0..3 batch digests; per digest the tape decides whether the batch reaches the node's mempool port before the proposal, shortly after, only in reply to its BatchRequest (or not even then), or never; direct, sync-resumed and payload-resumed processing paths. Oracle (store-write observer H4): for each Vote frame of the node for a block of another author and for each block on its commit channel, at log position p, every payload digest has a store write under that digest by the node before p. Non-trivial: a vote or commit for a block with >= 1 digest whose batch was not yet stored when the proposal was delivered; distinct by output-sequence hash."),
        assumptions: &["the commit is logged when the harness drains the commit channel, i.e. not earlier than the real hand-over (conservative for this oracle)"],
        parts: vec![
            part("payloads", 15_000, 300_000, |c, x| c08_run(c, x, Profile::Payloads)),
            part("mixed", 5_000, 100_000, |c, x| c08_run(c, x, Profile::Mixed)),
            crate::props::universal::c08_part(),
        ],
    }
}

fn c08_run(case: &Case, _ctx: &Ctx, profile: Profile) -> Outcome {
    let run = run_solo(case, profile, &knobs());
    let mut out = Outcome::default();
    out.sample = sample_of(&run);
    out.fingerprint = fingerprint(&run);
    if !no_panic(&run, &mut out) {
        return out;
    }
    let me = run.w.pk(run.sut);
    let mut written: HashMap<Vec<u8>, u64> = HashMap::new();
    for e in &run.hist {
        if let HEv::StoreWrite(k) = &e.ev {
            written.entry(k.clone()).or_insert(e.seq);
        }
    }
    let first_seen = first_delivery_of_block(&run);
    let mut waited = false;
    let mut check = |b: &Block, p: u64, what: &str, out: &mut Outcome| {
        for d in &b.payload {
            match written.get(&d.0.to_vec()) {
                Some(s) if *s < p => {
                    if let Some(fs) = first_seen.get(&b.digest()) {
                        if s > fs {
                            waited = true;
                        }
                    }
                }
                _ => out.violate(
                    &format!("{}-without-batch-in-store", what),
                    format!("{} for block of round {} although payload digest {} was not written to the node's store before", what, b.round, rig::short(d)),
                    hist_json(&run),
                ),
            }
        }
    };
    let mut with_payload = 0;
    for e in &run.hist {
        match &e.ev {
            HEv::Out { msg, .. } => {
                if let ConsensusMessage::Vote(v) = &**msg {
                    if v.author == me {
                        if let Some(b) = run.blocks.get(&v.hash) {
                            if b.author != me {
                                if !b.payload.is_empty() {
                                    with_payload += 1;
                                }
                                check(b, e.seq, "vote", &mut out);
                            }
                        }
                    }
                }
            }
            HEv::Commit(b) => {
                if !b.payload.is_empty() {
                    with_payload += 1;
                }
                check(b, e.seq, "commit", &mut out);
            }
            _ => {}
        }
    }
    if with_payload > 0 {
        out.class("vote-or-commit-with-payload");
    }
    if waited {
        out.class("batch-arrived-after-proposal");
    }
    for k in ["batch-mode-1", "batch-mode-2", "batch-mode-3", "batch-served"] {
        if run.stats.contains_key(k) {
            out.class(k);
        }
    }
    out.nontrivial = waited;
    out
}

// ------------------------------------------------------------------------------------------ C09 (solo part)

pub fn c09_part() -> Part {
    part("solo", 12_000, 250_000, c09_run)
}

fn c09_run(case: &Case, _ctx: &Ctx) -> Outcome {
    let run = run_solo(case, Profile::Voting, &knobs());
    let mut out = Outcome::default();
    out.sample = sample_of(&run);
    out.fingerprint = fingerprint(&run);
    if !no_panic(&run, &mut out) {
        return out;
    }
    let w = &run.w;
    let me = w.pk(run.sut);
    let votes = wire_votes(&run);
    let emb = embedded_votes(&run);
    for (r, d) in votes.iter().map(|(_, _, r, d)| (*r, d.clone())).chain(emb.iter().map(|(_, r, d)| (*r, d.clone()))) {
        if let Some(b) = run.blocks.get(&d) {
            let leader = w.pk(w.leader(b.round));
            if b.author != leader {
                out.violate("vote-for-non-leader-block", format!("the node voted in round {} for a block whose author is not the leader of round {}", r, b.round), hist_json(&run));
            }
            if !refvalid::sig_ok(&b.signature, &refvalid::block_digest(b), &b.author) {
                out.violate("vote-for-block-with-bad-author-signature", format!("voted block of round {} is not signed by its author", b.round), hist_json(&run));
            }
        }
    }
    // the node never signs two different proposals for one round
    let mut own: BTreeMap<u64, BTreeSet<Vec<u8>>> = BTreeMap::new();
    for e in &run.hist {
        if let HEv::Out { msg, .. } = &e.ev {
            if let ConsensusMessage::Propose(b) = &**msg {
                if b.author == me && refvalid::sig_ok(&b.signature, &refvalid::block_digest(b), &me) {
                    own.entry(b.round).or_default().insert(b.digest().0.to_vec());
                }
            }
        }
    }
    for (r, set) in &own {
        if set.len() > 1 {
            out.violate("node-equivocates", format!("the node signed {} different proposals for round {}", set.len(), r), hist_json(&run));
        }
        if w.leader(*r) != run.sut {
            out.violate("node-proposes-without-being-leader", format!("the node proposed in round {} which it does not lead", r), hist_json(&run));
        }
    }
    let wrong = run.stats.contains_key("wrong-leader");
    if wrong {
        out.class("wrong-leader-proposal-offered");
    }
    if !own.is_empty() {
        out.class("node-proposed");
    }
    let raced = !own.is_empty() && (run.stats.contains_key("timeouts-to-sut") || run.stats.contains_key("tc-to-sut"));
    if raced {
        out.class("node-proposed-with-timeouts-around");
    }
    out.nontrivial = wrong || raced;
    out
}

// ------------------------------------------------------------------------------------------ C10

pub fn c10_def() -> PropDef {
    PropDef {
        id: "C10",
        level: "exploration",
        rule: crate::props::universal::with_rule("proptest cfg+tape -> solo rig, 'voting', 'certs' and 'mixed' profiles (proposals, votes, timeouts, TCs in any order, past and future rounds, timer expiries). Oracle on the node's own messages: (i) the round fields of its Vote/Timeout/TC frames never decrease across strictly increasing instants (proposals, emitted by a separate task that may lag, are checked as their own stream); (ii) every Vote/Timeout/Propose it emits for a round R>1 is preceded in the log by a certificate for exactly R-1 available to it: a reference-valid QC or TC inside a delivered frame, or quorum-many valid votes for one block / timeouts of R-1 delivered to it (counting its own stake); (iii) each Timeout it signs carries a reference-valid (or genesis) high QC whose round is >= the QC round of every block it voted for earlier, of every earlier own timeout, and of every earlier own proposal. Non-trivial: the node acted in >= 3 rounds, entered through >= 2 kinds of evidence (QC and TC), and sent >= 1 timeout; distinct by output-sequence hash."),
        assumptions: &["zero connect latency; same-instant emissions are compared as sets"],
        parts: vec![
            part("voting", 10_000, 200_000, |c, x| c10_run(c, x, Profile::Voting)),
            part("certs", 6_000, 120_000, |c, x| c10_run(c, x, Profile::Certs)),
            part("mixed", 4_000, 80_000, |c, x| c10_run(c, x, Profile::Mixed)),
            crate::props::universal::c10_part(),
        ],
    }
}

fn c10_run(case: &Case, _ctx: &Ctx, profile: Profile) -> Outcome {
    let run = run_solo(case, profile, &knobs());
    let mut out = Outcome::default();
    out.sample = sample_of(&run);
    out.fingerprint = fingerprint(&run);
    if !no_panic(&run, &mut out) {
        return out;
    }
    let w = &run.w;
    let me = w.pk(run.sut);
    let shown = shown_to(&run);
    // (i) monotone rounds of core-originated messages
    let mut max_before = 0u64;
    let mut cur_t = u64::MAX;
    let mut cur_max = 0u64;
    let mut prop_max = 0u64;
    let mut rounds_acted: BTreeSet<u64> = BTreeSet::new();
    let mut via_qc = false;
    let mut via_tc = false;
    let mut checked: HashSet<(u8, u64)> = HashSet::new();
    let mut max_voted_qc = 0u64;
    let mut max_own_prop_qc = 0u64;
    let mut max_timeout_qc = 0u64;
    let mut ntimeouts = 0;
    let mut seen_props: HashSet<Digest> = HashSet::new();
    for e in &run.hist {
        if let HEv::Out { msg, .. } = &e.ev {
            if let ConsensusMessage::Propose(b) = &**msg {
                // re-sent proposals (other recipients of one broadcast, helper replies to sync
                // requests) are not new acts of the node
                if !seen_props.insert(b.digest()) {
                    continue;
                }
            }
        }
        let (kind, round) = match &e.ev {
            HEv::Out { msg, .. } => match &**msg {
                ConsensusMessage::Vote(v) if v.author == me => (0u8, v.round),
                ConsensusMessage::Timeout(t) if t.author == me => (1u8, t.round),
                ConsensusMessage::TC(t) => (2u8, t.round),
                ConsensusMessage::Propose(b) if b.author == me => (3u8, b.round),
                _ => continue,
            },
            _ => continue,
        };
        if kind != 3 {
            if e.t_us != cur_t {
                max_before = max_before.max(cur_max);
                cur_t = e.t_us;
                cur_max = 0;
            }
            if round < max_before {
                out.violate("round-decreased", format!("message of round {} emitted after a message of round {}", round, max_before), hist_json(&run));
            }
            cur_max = cur_max.max(round);
        } else {
            if round < prop_max {
                out.violate("proposal-round-decreased", format!("proposal for round {} emitted after a proposal for round {}", round, prop_max), hist_json(&run));
            }
            prop_max = prop_max.max(round);
        }
        // (ii) evidence for entering the round
        if kind != 2 && round > 1 && checked.insert((kind, round)) {
            rounds_acted.insert(round);
            if !cert_available(&run, &shown, round - 1, e.seq) {
                out.violate(
                    "round-entered-without-certificate",
                    format!("the node acted in round {} ({}) but no QC/TC for round {} was available to it before", round, ["vote", "timeout", "tc", "proposal"][kind as usize], round - 1),
                    hist_json(&run),
                );
            }
            if shown.qcs.iter().any(|(s, q)| *s < e.seq && q.round == round - 1) {
                via_qc = true;
            }
            if shown.tcs.iter().any(|(s, t)| *s < e.seq && t.round == round - 1) || shown.timeouts.iter().any(|(s, t)| *s < e.seq && t.round == round - 1) {
                via_tc = true;
            }
        } else if round == 1 {
            rounds_acted.insert(1);
        }
        // (iii) high-QC dominance
        if let HEv::Out { msg, .. } = &e.ev {
            match &**msg {
                ConsensusMessage::Vote(v) if v.author == me => {
                    if let Some(b) = run.blocks.get(&v.hash) {
                        max_voted_qc = max_voted_qc.max(b.qc.round);
                    }
                }
                ConsensusMessage::Propose(b) if b.author == me => {
                    max_own_prop_qc = max_own_prop_qc.max(b.qc.round);
                }
                ConsensusMessage::Timeout(t) if t.author == me => {
                    ntimeouts += 1;
                    if refvalid::ref_qc_embedded(w, &t.high_qc).is_err() {
                        out.violate("timeout-carries-invalid-qc", format!("timeout for round {} carries a high QC that is not valid", t.round), hist_json(&run));
                    }
                    let need = max_voted_qc.max(max_own_prop_qc).max(max_timeout_qc);
                    if t.high_qc.round < need {
                        out.violate(
                            "timeout-high-qc-too-low",
                            format!("timeout for round {} carries a QC of round {} although the node already voted for / proposed on / reported a QC of round {}", t.round, t.high_qc.round, need),
                            hist_json(&run),
                        );
                    }
                    max_timeout_qc = max_timeout_qc.max(t.high_qc.round);
                }
                _ => {}
            }
        }
    }
    if via_qc {
        out.class("entered-via-qc");
    }
    if via_tc {
        out.class("entered-via-tc-or-timeouts");
    }
    if ntimeouts > 0 {
        out.class("node-sent-timeout");
    }
    if run.stats.contains_key("future-round-message") {
        out.class("future-round-message");
    }
    if run.stats.contains_key("stale-round-message") {
        out.class("stale-round-message");
    }
    out.class(&format!("rounds-acted={}", match rounds_acted.len() { 0 => "0", 1..=2 => "1-2", 3..=6 => "3-6", _ => "7+" }));
    out.nontrivial = rounds_acted.len() >= 3 && via_qc && via_tc && ntimeouts >= 1;
    out
}

// ------------------------------------------------------------------------------------------ C19 (solo part)

pub fn c19_part() -> Part {
    part("solo", 10_000, 200_000, c19_run)
}

fn c19_run(case: &Case, _ctx: &Ctx) -> Outcome {
    let run = run_solo(case, Profile::Certs, &knobs());
    let mut out = Outcome::default();
    out.sample = sample_of(&run);
    out.fingerprint = fingerprint(&run);
    if !no_panic(&run, &mut out) {
        return out;
    }
    let w = &run.w;
    let me = w.pk(run.sut);
    let shown = shown_to(&run);
    let mut assembled_qcs = 0;
    let mut tcs_by_round: BTreeMap<u64, BTreeSet<u64>> = BTreeMap::new();
    let mut seen_props = HashSet::new();
    for e in &run.hist {
        if let HEv::Out { msg, .. } = &e.ev {
            match &**msg {
                ConsensusMessage::Propose(b) if b.author == me => {
                    if !seen_props.insert(b.digest()) {
                        continue;
                    }
                    if refvalid::is_genesis_qc(&b.qc) {
                        continue;
                    }
                    if let Err(r) = refvalid::ref_qc(w, &b.qc) {
                        out.violate("own-proposal-carries-invalid-qc", format!("QC (round {}) inside the node's proposal for round {} is not valid: {:?}", b.qc.round, b.round, r), hist_json(&run));
                        continue;
                    }
                    // received as such, or assembled from delivered votes (+ own)?
                    let signer_set: BTreeSet<Vec<u8>> = b.qc.votes.iter().map(|(k, _)| k.0.to_vec()).collect();
                    let received = shown.qcs.iter().any(|(s, q)| *s < e.seq && q.hash == b.qc.hash && q.round == b.qc.round);
                    if !received {
                        assembled_qcs += 1;
                        let mut voters: BTreeSet<Vec<u8>> = shown
                            .votes
                            .iter()
                            .filter(|(s, v)| *s < e.seq && v.hash == b.qc.hash && v.round == b.qc.round)
                            .map(|(_, v)| v.author.0.to_vec())
                            .collect();
                        voters.insert(me.0.to_vec());
                        if !signer_set.is_subset(&voters) {
                            out.violate("assembled-qc-has-signer-without-vote", format!("QC for round {} names a signer whose vote was never delivered to the node", b.qc.round), hist_json(&run));
                        }
                    }
                }
                ConsensusMessage::TC(tc) => {
                    tcs_by_round.entry(tc.round).or_default().insert(e.t_us);
                    if let Err(r) = refvalid::ref_tc(w, tc) {
                        out.violate("broadcast-tc-invalid", format!("TC for round {} broadcast by the node is not valid: {:?}", tc.round, r), hist_json(&run));
                    }
                    let received = shown.tcs.iter().any(|(s, t)| *s < e.seq && t.round == tc.round);
                    if !received {
                        let mut authors: BTreeMap<Vec<u8>, BTreeSet<u64>> = BTreeMap::new();
                        for (s, t) in &shown.timeouts {
                            if *s < e.seq && t.round == tc.round {
                                authors.entry(t.author.0.to_vec()).or_default().insert(t.high_qc.round);
                            }
                        }
                        for (k, _, hr) in &tc.votes {
                            if *k == me {
                                continue;
                            }
                            match authors.get(&k.0.to_vec()) {
                                Some(set) if set.contains(hr) => {}
                                Some(_) => out.violate("tc-entry-high-qc-round-mismatch", format!("TC for round {} reports a high-QC round {} that its signer did not send", tc.round, hr), hist_json(&run)),
                                None => out.violate("assembled-tc-has-signer-without-timeout", format!("TC for round {} names a signer whose timeout was never delivered to the node", tc.round), hist_json(&run)),
                            }
                        }
                    }
                }
                _ => {}
            }
        }
    }
    for (r, instants) in &tcs_by_round {
        if instants.len() > 1 {
            out.violate("tc-broadcast-twice", format!("the node broadcast a TC for round {} at {} different instants", r, instants.len()), hist_json(&run));
        }
    }
    if assembled_qcs > 0 {
        out.class("node-assembled-qc");
    }
    if !tcs_by_round.is_empty() {
        out.class("node-broadcast-tc");
    }
    let noisy = run.stats.contains_key("duplicate-vote") || run.stats.contains_key("conflicting-vote") || run.stats.contains_key("duplicate-timeout");
    if noisy {
        out.class("duplicates-or-conflicts-sent");
    }
    out.nontrivial = (assembled_qcs > 0 || !tcs_by_round.is_empty()) && (noisy || run.w.stakes.iter().any(|s| *s != run.w.stakes[0]));
    out
}

// ------------------------------------------------------------------------------------------ C20 (solo part)

pub fn c20_part() -> Part {
    part("solo-store", 6_000, 120_000, c20_run)
}

fn c20_run(case: &Case, _ctx: &Ctx) -> Outcome {
    // sync probes are frequent in this profile mix: reuse 'mixed' and look at the replies
    let run = run_solo(case, Profile::Mixed, &knobs());
    let mut out = Outcome::default();
    out.sample = sample_of(&run);
    out.fingerprint = fingerprint(&run);
    if !no_panic(&run, &mut out) {
        return out;
    }
    let w = &run.w;
    // every SyncRequest delivered to the node for a block it has stored must be answered with that block
    let mut stored: HashMap<Vec<u8>, u64> = HashMap::new();
    for e in &run.hist {
        if let HEv::StoreWrite(k) = &e.ev {
            stored.entry(k.clone()).or_insert(e.seq);
        }
    }
    let mut replies = 0;
    let mut rich = false;
    let end_t = run.hist.last().map(|e| e.t_us).unwrap_or(0);
    for (i, e) in run.hist.iter().enumerate() {
        if let HEv::In { msg, .. } = &e.ev {
            if let ConsensusMessage::SyncRequest(d, origin) = &**msg {
                let known = run.blocks.get(d);
                let was_stored = stored.get(&d.0.to_vec()).map_or(false, |s| *s < e.seq);
                let requester = match w.index_of(origin) {
                    Some(i) => i as u32 + 1,
                    None => continue,
                };
                // the reply: a Propose to the requester after the request
                let reply = run.hist[i..].iter().find_map(|x| match &x.ev {
                    HEv::Out { to, msg } if *to == requester => match &**msg {
                        // exact digest only: with equivocating blocks of one author and round in play, a
                        // reply to another request must not be mistaken for this one (a reply carrying
                        // the wrong block shows up as an unanswered request)
                        ConsensusMessage::Propose(b) if b.digest() == *d => Some(b.clone()),
                        _ => None,
                    },
                    _ => None,
                });
                match (known, was_stored, reply) {
                    (Some(orig), true, Some(back)) => {
                        replies += 1;
                        // the TC and the QC's vote list are not covered by the digest: the stored copy is
                        // one of the variants delivered under this digest
                        let vars = variants_before(&run, d, u64::MAX);
                        let back_shape = crate::props::c20::shape(&back);
                        if !vars.iter().any(|v| crate::props::c20::shape(v) == back_shape) {
                            out.violate("sync-reply-differs-from-stored-block", format!("block of round {} came back different through the store", orig.round), hist_json(&run));
                        }
                        if back.digest() != *d {
                            out.violate("sync-reply-digest-differs", format!("reply to a request for {} has digest {}", rig::short(d), rig::short(&back.digest())), hist_json(&run));
                        }
                        if refvalid::ref_block(w, orig).is_ok() && back.verify(&w.ccom).is_err() {
                            out.violate("sync-reply-no-longer-verifies", format!("block of round {} no longer verifies after the store round trip", orig.round), hist_json(&run));
                        }
                        if !orig.payload.is_empty() || orig.tc.is_some() {
                            rich = true;
                        }
                    }
                    (Some(orig), true, None) => {
                        // allow for requests sent right at the end of the case
                        if e.t_us + 20_000 < end_t {
                            out.violate("sync-request-for-stored-block-unanswered", format!("no reply to a SyncRequest for the stored block of round {}", orig.round), hist_json(&run));
                        }
                    }
                    _ => {}
                }
            }
        }
    }
    if replies > 0 {
        out.class("sync-reply-seen");
    }
    if rich {
        out.class("block-with-payload-or-tc-fetched-back");
    }
    out.nontrivial = replies > 0;
    out
}

// ------------------------------------------------------------------------------------------ C04 (solo part; filled in by noninterference.rs)

pub fn c04_part() -> Part {
    crate::props::noninterference::part()
}


/// C02, lagging application: a straight certified chain of more than a thousand blocks (rounds led by
/// the node itself are skipped through a TC) is delivered while the harness task that plays the
/// application does not read the commit channel (capacity 1 000 in node.rs); then it resumes. Every
/// block the chain commits must come out, once, parent-linked, in order.
fn c02_lagging_run(case: &Case, _ctx: &Ctx) -> Outcome {
    use crate::rig::{self, Conns, Inbox, NodeParams, SharedInbox};
    use crate::sim::{self, ms, us, Ev, RigPolicy};
    use crate::tape::Tape;
    use crate::world::World;
    use consensus::{Block, ConsensusMessage, QC};
    use crypto::{Digest, Hash as _};
    use network::simnet::{self, ConnectDecision, FrameDecision};
    use std::sync::{Arc, Mutex};
    let mut t = Tape::new(&case.tape);
    let w = World::new(&[1, 1, 1, 1], t.below(4) as u64);
    let sut = t.below(4);
    let len = 1_020 + t.range(0, 120) as usize;
    let dir = sim::scratch_dir("lagging");
    let _g = sim::ScratchGuard(dir.clone());
    let params = NodeParams::default();
    let sut_id = sut as u32 + 1;
    let (w2, dir2) = (&w, dir.clone());
    let chain: Vec<Block> = sim::run_sim(case.cfg.first().copied().unwrap_or(0) as u64 ^ 0x1a66, || async move {
        simnet::install(Box::new(RigPolicy {
            on_connect: Box::new(|_, _| ConnectDecision::Accept(us(0))),
            on_frame: Box::new(|_, _| FrameDecision::Deliver(us(200))),
            on_delivered: None,
        }));
        let inbox: SharedInbox = Arc::new(Mutex::new(Inbox::default()));
        let puppets: Vec<usize> = (0..w2.n).filter(|i| *i != sut).collect();
        for p in &puppets {
            rig::start_puppet(*p, inbox.clone()).await;
        }
        rig::set_commit_drain_paused(true);
        rig::start_real_node(w2, sut, &dir2, &params).await;
        tokio::time::sleep(ms(3)).await;
        let mut conns = Conns::default();
        let mut chain: Vec<Block> = Vec::new();
        let mut round = 1u64;
        while chain.len() < len {
            let mut tc = None;
            while w2.leader(round) == sut {
                let prev_round = chain.last().map_or(0, |b: &Block| b.round);
                let e: Vec<(usize, u64)> = puppets.iter().map(|i| (*i, prev_round)).collect();
                tc = Some(w2.tc(round, &e));
                round += 1;
            }
            let qc = match chain.last() {
                Some(b) => w2.qc(b, &puppets),
                None => QC::genesis(),
            };
            let author = w2.leader(round);
            let b = w2.block(author, round, qc, tc, Vec::new());
            let _ = conns.consensus(author, sut, &ConsensusMessage::Propose(b.clone())).await;
            chain.push(b);
            round += 1;
            tokio::time::sleep(us(150)).await;
        }
        tokio::time::sleep(ms(60)).await;
        rig::set_commit_drain_paused(false);
        tokio::time::sleep(ms(400)).await;
        chain
    });
    rig::set_commit_drain_paused(false);
    let log = sim::take_log();
    let panics = sim::panics();
    let mut out = Outcome::default();
    out.sample = json!({"chain_blocks": len, "node": sut});
    out.fingerprint = crate::tape::fnv(format!("{}|{}|{:?}", len, sut, case.tape).as_bytes());
    if let Some(p) = panics.iter().find(|p| p.node == sut_id) {
        out.violate(&format!("panic@{}", p.location), format!("the node panicked at {}: {}", p.location, p.message), json!({"chain_blocks": len}));
        return out;
    }
    // what the chain commits: everything up to the last block that has a consecutive child which is certified
    let mut last = None;
    for j in 0..chain.len().saturating_sub(2) {
        if chain[j + 1].round == chain[j].round + 1 {
            last = Some(j);
        }
    }
    let expected: Vec<Digest> = match last {
        Some(j) => chain[..=j].iter().map(|b| b.digest()).collect(),
        None => Vec::new(),
    };
    let delivered: Vec<(u64, Digest)> = log
        .iter()
        .filter_map(|e| match &e.ev {
            Ev::Commit { node, block } if *node == sut_id => Some((block.round, block.digest())),
            _ => None,
        })
        .collect();
    let got: Vec<Digest> = delivered.iter().map(|(_, d)| d.clone()).collect();
    if got != expected {
        let first_diff = got.iter().zip(expected.iter()).position(|(a, b)| a != b).unwrap_or(got.len().min(expected.len()));
        out.violate(
            "lagging-application-misses-deliveries",
            format!(
                "the chain commits {} blocks; with the application reading nothing until the end the node handed over {} (first difference at position {}, delivered round there: {:?})",
                expected.len(),
                got.len(),
                first_diff,
                delivered.get(first_diff).map(|(r, _)| *r)
            ),
            json!({"chain_blocks": len, "expected": expected.len(), "delivered": got.len(), "delivered_rounds_around": delivered.iter().skip(first_diff.saturating_sub(3)).take(8).map(|(r, _)| *r).collect::<Vec<_>>()}),
        );
    }
    out.nontrivial = expected.len() > 1_000;
    if out.nontrivial {
        out.class("more-commits-than-the-commit-channel-holds");
    }
    out
}
