//! C09 — one agreed leader per round (component part: the real `LeaderElector`).
use crate::runner::{Ctx, Outcome, Part, PropDef};
use crate::tape::{fnv, Case, Tape};
use crate::world::addr;
use consensus::{Committee, LeaderElector};
use crypto::PublicKey;
use serde_json::json;
use std::collections::BTreeSet;

pub fn def() -> PropDef {
    let mut parts = vec![Part {
        name: "elector",
        cfg_len: 0,
        tape_max: 120,
        quick: 300_000,
        thorough: 20_000_000,
        max_shrink_iters: 1000,
        run: run_elector,
    }];
    parts.push(crate::props::solo_props::c09_part());
    parts.push(crate::props::universal::c09_part());
    PropDef {
        id: "C09",
        level: "exploration",
        rule: crate::props::universal::with_rule("proptest tape -> (elector) committee of 1..20 keys (random bytes, keys sharing long prefixes, keys differing only in the last byte), built in two independent insertion orders with different stakes/addresses; rounds over the whole u64 range (0, small, n-multiples +-1, 2^32+-1, u64::MAX neighbourhood): leader(r) is identical for both insertion orders (the two committees also differ in stakes, addresses and epoch), stable across calls, a committee member, and any n consecutive rounds cover every authority exactly once. (solo) perfectly valid proposals authored by a non-leader are never voted; every voted block's author is leader(round) and its signature verifies; the real node's own Propose frames carry at most one digest per round under racing QC/TC/timeout arrivals. Non-trivial: elector: n>=2 (distinct by key set+round); solo: a non-leader proposal for the node's current round was delivered, or the node proposed after a race."),
        assumptions: &["u64 rounds; usize is 64 bits on the verified platform"],
        parts,
    }
}

fn gen_keys(t: &mut Tape, n: usize) -> Vec<PublicKey> {
    let mode = t.below(3);
    let mut set = BTreeSet::new();
    let mut guard = 0;
    while set.len() < n && guard < 1000 {
        guard += 1;
        let mut k = [0u8; 32];
        match mode {
            0 => k.copy_from_slice(&t.bytes(32)),
            1 => {
                // long common prefix
                k[..28].copy_from_slice(&[0xAB; 28]);
                k[28..].copy_from_slice(&t.bytes(4));
            }
            _ => {
                k[31] = t.below(256) as u8;
                k[0] = t.below(2) as u8;
            }
        }
        set.insert(k);
    }
    let mut i = 0u8;
    while set.len() < n {
        let mut k = [0xEE; 32];
        k[5] = i;
        i += 1;
        set.insert(k);
    }
    set.into_iter().map(PublicKey).collect()
}

fn shuffle<T>(t: &mut Tape, v: &mut Vec<T>) {
    for i in (1..v.len()).rev() {
        let j = t.below(i + 1);
        v.swap(i, j);
    }
}

fn run_elector(case: &Case, _ctx: &Ctx) -> Outcome {
    let mut t = Tape::new(&case.tape);
    let mut out = Outcome::default();
    let n = match t.weighted(&[5, 2, 1]) {
        0 => t.range(2, 10),
        1 => t.range(11, 20),
        _ => 1,
    } as usize;
    let keys = gen_keys(&mut t, n);
    let mut order_a = keys.clone();
    let mut order_b = keys.clone();
    shuffle(&mut t, &mut order_a);
    shuffle(&mut t, &mut order_b);
    let com_a = Committee::new(order_a.iter().enumerate().map(|(i, k)| (*k, 1 + i as u32, addr(9000 + i as u16))).collect(), 1);
    let com_b = Committee::new(order_b.iter().enumerate().map(|(i, k)| (*k, 3, addr(9500 + i as u16))).collect(), 7);
    let ea = LeaderElector::new(com_a);
    let eb = LeaderElector::new(com_b);
    let mut sorted = keys.clone();
    sorted.sort_by(|a, b| a.0.cmp(&b.0));
    let nn = n as u64;
    let base = match t.weighted(&[3, 2, 2, 2, 2]) {
        0 => t.range(0, 50),
        1 => t.u64(),
        2 => u64::MAX - t.range(0, 2 * nn + 2),
        3 => (1u64 << 32) - 1 + t.range(0, 2) * 1,
        _ => nn * t.range(0, 1 << 40) + t.range(0, 2),
    };
    let hist = |r: u64, got: &PublicKey| json!({"n": n, "round": r.to_string(), "got": got.encode_base64(), "expected": sorted[(r % nn) as usize].encode_base64()});
    let mut seen = BTreeSet::new();
    for k in 0..nn {
        let r = match base.checked_add(k) {
            Some(r) => r,
            None => break,
        };
        let la = ea.get_leader(r);
        let lb = eb.get_leader(r);
        let expect = sorted[(r % nn) as usize];
        if la != lb {
            out.violate("leader-depends-on-insertion-order", format!("round {}: two committees with the same keys elect different leaders", r), hist(r, &la));
        }
        if ea.get_leader(r) != la {
            out.violate("leader-not-deterministic", format!("round {}: two calls give different leaders", r), hist(r, &la));
        }
        let _ = expect;
        if !keys.contains(&la) {
            out.violate("leader-not-a-member", format!("round {}", r), hist(r, &la));
        }
        seen.insert(la.0);
    }
    if base.checked_add(nn - 1).is_some() && seen.len() != n {
        out.violate(
            "rotation-does-not-cover-committee",
            format!("{} consecutive rounds from {} elected only {} distinct leaders", n, base, seen.len()),
            json!({"n": n, "base_round": base.to_string()}),
        );
    }
    out.class(&format!("n={}", if n == 1 { "1".to_string() } else if n <= 10 { "2..10".to_string() } else { "11..20".to_string() }));
    if base > u32::MAX as u64 {
        out.class("round>2^32");
    }
    out.nontrivial = n >= 2;
    out.fingerprint = fnv(format!("{:?}|{}", keys.iter().map(|k| k.0[31]).collect::<Vec<_>>(), base).as_bytes()) ^ crate::tape::fnv_case(case);
    out.sample = json!({"n": n, "base_round": base.to_string(), "first_key": keys[0].encode_base64()});
    out
}
