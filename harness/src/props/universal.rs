//! Per-node invariants of C02, C03, C05, C08, C09 and C10 evaluated on histories of a *cluster* of real
//! nodes (real node.rs wiring, in-memory transport, virtual time) under a mixed fault scenario:
//! per-link delays, a pre-stabilisation period with long delays, crashes of up to f nodes, one node
//! cut off for a while, batches that one node never receives, staggered boots, client load.
//!
//! The solo rig decides these properties against one real node fed by scripted puppets; this part
//! complements it with the schedules that only several real nodes produce together (real sync
//! traffic, real view changes, real racing of QCs, TCs and timeouts). Every clause below is
//! order-robust: virtual time makes "written strictly earlier" meaningful (connects are immediate,
//! votes and timeouts are written in the instant they are produced), and a node's own proposals -
//! which the reliable sender may write late - are only ever used as the *earlier* witness.
use crate::cluster::{self, commits_by_node, Crash, LinkMode, NetCtl, SharedCtl};
use crate::refvalid;
use crate::rig::{Conns, NodeParams};
use crate::runner::{Ctx, Outcome, Part};
use crate::sim::{self, ms, Ev, Event};
use crate::tape::{cfg_range, fnv, Case, Tape};
use crate::world::{node_of_port, port_kind, PortKind, World};
use consensus::{Block, ConsensusMessage, Timeout, Vote};
use crypto::{Digest, Hash as _};
use serde_json::{json, Value};
use std::cell::RefCell;
use std::collections::{BTreeMap, BTreeSet, HashMap};
use std::rc::Rc;

pub const CFG_LEN: usize = 8;

pub struct Scenario {
    pub w: World,
    pub n: usize,
    pub log: Vec<Event>,
    pub panicked: bool,
    pub sample: Value,
    pub fingerprint: u64,
}

/// Generate and run one mixed-fault cluster scenario.
pub fn run_scenario(case: &Case) -> Scenario {
    let n = cfg_range(&case.cfg, 0, 4, 6) as usize;
    let w = World::new(&vec![1u32; n], cfg_range(&case.cfg, 1, 0, 3));
    let base_ms = cfg_range(&case.cfg, 2, 5, 35);
    let jitter_ms = cfg_range(&case.cfg, 3, 0, 15);
    let net_seed = case.cfg.get(4).copied().unwrap_or(0) as u64;
    let rt_seed = case.cfg.get(5).copied().unwrap_or(0) as u64;
    let mut t = Tape::new(&case.tape);
    let tau = *t.pick(&[400u64, 300, 600]);
    let params = NodeParams {
        timeout_delay: tau,
        sync_retry_delay: 500,
        gc_depth: 50,
        mempool_sync_retry_delay: 300,
        sync_retry_nodes: 3,
        batch_size: cfg_range(&case.cfg, 6, 60, 400) as usize,
        max_batch_delay: cfg_range(&case.cfg, 7, 10, 80),
    };
    let f = (n - 1) / 3;
    // client load
    let ntx = t.range(0, 30) as usize;
    let mut plan: Vec<(usize, Vec<u8>, u64)> = Vec::new();
    for i in 0..ntx {
        let node = t.below(n);
        let len = t.range(10, 120) as usize;
        let mut tx = vec![1u8; len];
        tx[1..9].copy_from_slice(&(i as u64 + 1).to_be_bytes());
        tx[9] = node as u8;
        let gap = match t.weighted(&[3, 3, 1]) {
            0 => 0,
            1 => t.range(1, 40),
            _ => t.range(40, 300),
        };
        plan.push((node, tx, gap));
    }
    // crashes (at most f)
    let ncrash = t.weighted(&[3, 4]).min(f);
    let mut crashed: Vec<usize> = Vec::new();
    let mut crash_specs: Vec<(u32, Crash)> = Vec::new();
    let mut crash_desc: Vec<Value> = Vec::new();
    for _ in 0..ncrash {
        let mut c = t.below(n);
        while crashed.contains(&c) {
            c = (c + 1) % n;
        }
        crashed.push(c);
        let spec = match t.weighted(&[3, 2, 4]) {
            0 => Crash { at_us: Some(t.range(0, 2_500_000)), after_frames: None, after_kind: None, kind_written: 0, split: None, split_seen: Vec::new(), crashed: false },
            1 => Crash { at_us: None, after_frames: Some(t.range(0, 150)), after_kind: None, kind_written: 0, split: None, split_seen: Vec::new(), crashed: false },
            _ => {
                let kind = *t.pick(&[0u32, 2, 3, 1]);
                let k = t.range(0, 4 * (n as u64 - 1));
                Crash { at_us: None, after_frames: None, after_kind: Some((kind, k)), kind_written: 0, split: None, split_seen: Vec::new(), crashed: false }
            }
        };
        crash_desc.push(json!({"node": c + 1, "at_us": spec.at_us, "after_frames": spec.after_frames, "after_kind": spec.after_kind.map(|(k, i)| format!("{} #{}", ["Propose", "Vote", "Timeout", "TC"][k as usize], i))}));
        crash_specs.push((c as u32 + 1, spec));
    }
    // one node cut off for a while (a node other than the crashed ones, so that a quorum stays)
    let isolate = t.chance(1, 2) && crashed.len() < f.max(1);
    let mut victim = t.below(n);
    while crashed.contains(&victim) {
        victim = (victim + 1) % n;
    }
    let iso_start = t.range(30, 1_500);
    let iso_len = match t.weighted(&[3, 3, 2]) {
        0 => t.range(30, 300),
        1 => t.range(300, 1_200),
        _ => t.range(1_200, 2_500),
    };
    let iso_mode = if t.chance(1, 2) { LinkMode::Cut } else { LinkMode::Drop };
    // pre-stabilisation delays
    let (gst_ms, pre_extra_ms) = match t.weighted(&[2, 2, 2]) {
        0 => (0, 0),
        1 => (t.range(200, 2_000), t.range(30, tau)),
        _ => (t.range(200, 2_000), t.range(tau, 5 * tau / 2)),
    };
    // a node that never receives one creator's batches
    let miss = t.chance(1, 3);
    let miss_victim = t.below(n);
    let miss_creator = (miss_victim + 1 + t.below(n - 1)) % n;
    // staggered boot
    let boot_ms: Vec<u64> = (0..n).map(|_| if t.chance(1, 4) { t.range(20, tau) } else { 0 }).collect();
    let horizon_ms = t.range(2_500, 5_000) + if isolate { iso_len / 2 } else { 0 };
    let dir = sim::scratch_dir("univ");
    let _g = sim::ScratchGuard(dir.clone());
    let real: Vec<usize> = (0..n).collect();
    let (w2, dir2, params2, plan2, specs2, boot2, mode2) = (&w, dir.clone(), params.clone(), plan.clone(), crash_specs.clone(), boot_ms.clone(), iso_mode.clone());
    let vid = victim as u32 + 1;
    sim::run_sim(rt_seed ^ 0x0171, || async move {
        let ctl: SharedCtl = Rc::new(RefCell::new(NetCtl::new(net_seed)));
        {
            let mut c = ctl.borrow_mut();
            c.base_us = base_ms * 1000;
            c.jitter_us = jitter_ms * 1000;
            c.gst_us = gst_ms * 1000;
            c.pre_gst_extra_us = pre_extra_ms * 1000;
            for (id, spec) in specs2 {
                c.crash.insert(id, spec);
            }
            if miss {
                c.drop_links.insert((miss_creator as u32 + 1, miss_victim as u32 + 1, PortKind::Mempool));
            }
        }
        cluster::install_policy(ctl.clone());
        let mut order: Vec<usize> = real.clone();
        order.sort_by_key(|i| boot2[*i]);
        let mut now_ms = 0;
        for i in order {
            if boot2[i] > now_ms {
                tokio::time::sleep(ms(boot2[i] - now_ms)).await;
                now_ms = boot2[i];
            }
            cluster::start_real_nodes(w2, &[i], &dir2, &params2).await;
        }
        tokio::time::sleep(ms(10)).await;
        // one timeline: client transactions, the start and the end of the isolation
        enum Act {
            Tx(usize, Vec<u8>),
            Isolate,
            Heal,
        }
        let mut timeline: Vec<(u64, u32, Act)> = Vec::new();
        let mut at = 0u64;
        for (k, (node, tx, gap)) in plan2.into_iter().enumerate() {
            at += gap;
            timeline.push((at, 2 + k as u32, Act::Tx(node, tx)));
        }
        if isolate {
            timeline.push((iso_start, 0, Act::Isolate));
            timeline.push((iso_start + iso_len, 1, Act::Heal));
        }
        timeline.sort_by_key(|(t, k, _)| (*t, *k));
        let mut conns = Conns::default();
        let mut now = 0u64;
        for (t, _, act) in timeline {
            if t > now {
                tokio::time::sleep(ms(t - now)).await;
                now = t;
            }
            match act {
                Act::Tx(node, tx) => {
                    let _ = conns.tx(200 + node as u32, node, tx).await;
                }
                Act::Isolate => cluster::isolate(&ctl, vid, mode2.clone()),
                Act::Heal => {
                    cluster::heal(&ctl, vid);
                    sim::log(Ev::Note("healed".into()));
                }
            }
        }
        tokio::time::sleep(ms(horizon_ms)).await;
    });
    let log = sim::take_log();
    let panicked = !sim::panics().is_empty();
    let sample = json!({"n": n, "timeout_ms": tau, "base_delay_ms": base_ms, "jitter_ms": jitter_ms, "transactions": ntx, "crashes": crash_desc,
        "isolation": if isolate { json!({"node": victim + 1, "start_ms": iso_start, "len_ms": iso_len, "mode": format!("{:?}", iso_mode)}) } else { json!(null) },
        "gst_ms": gst_ms, "pre_gst_extra_delay_ms": pre_extra_ms,
        "missing_batches": if miss { json!({"victim": miss_victim + 1, "creator": miss_creator + 1}) } else { json!(null) },
        "boot_ms": boot_ms, "horizon_ms": horizon_ms});
    let fingerprint = fnv(format!("{}|{}|{}|{:?}|{}|{}|{}|{:?}|{}|{}|{}|{:?}|{}", n, tau, base_ms, crash_desc, isolate, iso_start, iso_len, iso_mode, gst_ms, pre_extra_ms, miss, boot_ms, net_seed).as_bytes());
    Scenario { w, n, log, panicked, sample, fingerprint }
}

pub struct Frame {
    pub seq: u64,
    pub t: u64,
    pub writer: u32,
    pub dst: u32,
    pub msg: ConsensusMessage,
    pub dropped: bool,
}

pub fn frames_of(log: &[Event]) -> Vec<Frame> {
    let mut v = Vec::new();
    for e in log {
        if let Ev::Sent { info, bytes, dropped } = &e.ev {
            if info.forward && port_kind(info.dst_port) == PortKind::Consensus {
                if let Ok(m) = bincode::deserialize::<ConsensusMessage>(bytes) {
                    v.push(Frame { seq: e.seq, t: e.t_us, writer: info.writer_node, dst: node_of_port(info.dst_port), msg: m, dropped: *dropped });
                }
            }
        }
    }
    v
}

pub struct Finding {
    pub prop: &'static str,
    pub sig: &'static str,
    pub node: u32,
    pub detail: String,
}

#[derive(Default)]
pub struct Observed {
    pub votes_checked: u64,
    pub votes_after_own_timeout: u64,
    pub votes_on_foreign_payload: u64,
    pub timeouts_checked: u64,
    pub timeouts_with_real_qc: u64,
    pub commits_checked: u64,
    pub multi_block_commit: bool,
    pub commit_chain_with_round_gap: bool,
    pub view_change: bool,
    pub sync_request: bool,
    pub proposers: usize,
    pub nodes_committing: usize,
}

/// Certificates (QC for (hash, round), or any certificate of a round) that a node can hold at an
/// instant, judged generously from what was written to it and from what it could assemble.
struct Avail<'a> {
    w: &'a World,
    /// per node: (t, hash, round) of QCs carried by frames written to it
    qcs: HashMap<u32, Vec<(u64, Digest, u64)>>,
    /// per node: (t, round) of TCs carried by frames written to it
    tcs: HashMap<u32, Vec<(u64, u64)>>,
    /// per node: votes written to it: (t, author index, hash, round)
    votes: HashMap<u32, Vec<(u64, usize, Digest, u64)>>,
    /// per node: timeouts written to it: (t, author index, round)
    touts: HashMap<u32, Vec<(u64, usize, u64)>>,
}

impl<'a> Avail<'a> {
    fn new(w: &'a World, frames: &[Frame]) -> Self {
        let mut a = Avail { w, qcs: HashMap::new(), tcs: HashMap::new(), votes: HashMap::new(), touts: HashMap::new() };
        for f in frames {
            if f.dropped {
                continue;
            }
            match &f.msg {
                ConsensusMessage::Propose(b) => {
                    a.qcs.entry(f.dst).or_default().push((f.t, b.qc.hash.clone(), b.qc.round));
                    if let Some(tc) = &b.tc {
                        a.tcs.entry(f.dst).or_default().push((f.t, tc.round));
                    }
                }
                ConsensusMessage::Timeout(x) => {
                    a.qcs.entry(f.dst).or_default().push((f.t, x.high_qc.hash.clone(), x.high_qc.round));
                    if let Some(i) = w.index_of(&x.author) {
                        a.touts.entry(f.dst).or_default().push((f.t, i, x.round));
                    }
                }
                ConsensusMessage::TC(tc) => a.tcs.entry(f.dst).or_default().push((f.t, tc.round)),
                ConsensusMessage::Vote(v) => {
                    if let Some(i) = w.index_of(&v.author) {
                        a.votes.entry(f.dst).or_default().push((f.t, i, v.hash.clone(), v.round));
                    }
                }
                _ => {}
            }
        }
        a
    }

    /// Could `node` hold a QC for exactly (hash, round) at time `t`?
    fn qc_for(&self, node: u32, hash: &Digest, round: u64, t: u64) -> bool {
        if self.qcs.get(&node).map_or(false, |v| v.iter().any(|(tt, h, r)| *tt <= t && *r == round && h == hash)) {
            return true;
        }
        let mut signers: BTreeSet<usize> = BTreeSet::new();
        signers.insert(node as usize - 1);
        if let Some(v) = self.votes.get(&node) {
            for (tt, i, h, r) in v {
                if *tt <= t && *r == round && h == hash {
                    signers.insert(*i);
                }
            }
        }
        self.w.stake_of(&signers.into_iter().collect::<Vec<_>>()) >= self.w.quorum()
    }

    /// Could `node` hold some certificate (QC or TC) of exactly `round` at time `t`?
    fn cert_of_round(&self, node: u32, round: u64, t: u64) -> bool {
        if self.qcs.get(&node).map_or(false, |v| v.iter().any(|(tt, _, r)| *tt <= t && *r == round)) {
            return true;
        }
        if self.tcs.get(&node).map_or(false, |v| v.iter().any(|(tt, r)| *tt <= t && *r == round)) {
            return true;
        }
        let q = self.w.quorum();
        // assembled from votes (per block) ...
        let mut per_hash: HashMap<Digest, BTreeSet<usize>> = HashMap::new();
        if let Some(v) = self.votes.get(&node) {
            for (tt, i, h, r) in v {
                if *tt <= t && *r == round {
                    per_hash.entry(h.clone()).or_default().insert(*i);
                }
            }
        }
        for s in per_hash.values_mut() {
            s.insert(node as usize - 1);
            if self.w.stake_of(&s.iter().copied().collect::<Vec<_>>()) >= q {
                return true;
            }
        }
        // ... or from timeouts
        let mut s: BTreeSet<usize> = BTreeSet::new();
        s.insert(node as usize - 1);
        if let Some(v) = self.touts.get(&node) {
            for (tt, i, r) in v {
                if *tt <= t && *r == round {
                    s.insert(*i);
                }
            }
        }
        self.w.stake_of(&s.into_iter().collect::<Vec<_>>()) >= q
    }
}

/// Evaluate every clause on the history; all nodes of the scenario run the unmodified code.
pub fn invariants(w: &World, n: usize, log: &[Event]) -> (Vec<Finding>, Observed) {
    let mut out: Vec<Finding> = Vec::new();
    let mut obs = Observed::default();
    let frames = frames_of(log);
    let avail = Avail::new(w, &frames);
    // blocks that appeared on the wire
    let mut wire: HashMap<Digest, Block> = HashMap::new();
    for f in &frames {
        match &f.msg {
            ConsensusMessage::Propose(b) => {
                wire.entry(b.digest()).or_insert_with(|| b.clone());
            }
            ConsensusMessage::Timeout(_) | ConsensusMessage::TC(_) => obs.view_change = true,
            ConsensusMessage::SyncRequest(..) => obs.sync_request = true,
            _ => {}
        }
    }
    // store writes per node: key -> first seq
    let mut stored: HashMap<(u32, Vec<u8>), u64> = HashMap::new();
    for e in log {
        if let Ev::StoreWrite { node, key, .. } = &e.ev {
            stored.entry((*node, key.clone())).or_insert(e.seq);
        }
    }
    let commits = commits_by_node(log);
    obs.nodes_committing = commits.len();

    // ---------------------------------------------------------------- C09 (a): no equivocation
    let mut by_author_round: BTreeMap<(usize, u64), Vec<Digest>> = BTreeMap::new();
    let mut proposers: BTreeSet<usize> = BTreeSet::new();
    for (d, b) in &wire {
        if let Some(a) = w.index_of(&b.author) {
            if refvalid::sig_ok(&b.signature, &refvalid::block_digest(b), &b.author) {
                by_author_round.entry((a, b.round)).or_default().push(d.clone());
                proposers.insert(a);
            }
        }
    }
    obs.proposers = proposers.len();
    for ((a, r), ds) in &by_author_round {
        if ds.len() > 1 {
            out.push(Finding { prop: "C09", sig: "cluster:node-equivocates", node: *a as u32 + 1, detail: format!("node {} signed {} different proposals for round {}", a + 1, ds.len(), r) });
        }
    }

    for node in 1..=n as u32 {
        let me = node as usize - 1;
        let my_votes: Vec<(&Frame, &Vote)> = frames
            .iter()
            .filter_map(|f| match &f.msg {
                ConsensusMessage::Vote(v) if f.writer == node && w.index_of(&v.author) == Some(me) => Some((f, v)),
                _ => None,
            })
            .collect();
        let my_touts: Vec<(&Frame, &Timeout)> = frames
            .iter()
            .filter_map(|f| match &f.msg {
                ConsensusMessage::Timeout(x) if f.writer == node && w.index_of(&x.author) == Some(me) => Some((f, x)),
                _ => None,
            })
            .collect();
        let my_props: Vec<(&Frame, &Block)> = frames
            .iter()
            .filter_map(|f| match &f.msg {
                ConsensusMessage::Propose(b) if f.writer == node && w.index_of(&b.author) == Some(me) => Some((f, b)),
                _ => None,
            })
            .collect();

        // ------------------------------------------------------------ C03
        let mut vote_of_round: BTreeMap<u64, (Digest, u64)> = BTreeMap::new();
        for (f, v) in &my_votes {
            match vote_of_round.get(&v.round) {
                None => {
                    vote_of_round.insert(v.round, (v.hash.clone(), f.t));
                }
                Some((h, _)) if *h != v.hash => {
                    out.push(Finding { prop: "C03", sig: "cluster:two-votes-in-one-round", node, detail: format!("node {} voted for two different blocks in round {}", node, v.round) });
                }
                _ => {}
            }
        }
        // strictly increasing over (strict) time
        let mut firsts: Vec<(u64, u64)> = vote_of_round.iter().map(|(r, (_, t))| (*t, *r)).collect();
        firsts.sort();
        for i in 0..firsts.len() {
            for j in i + 1..firsts.len() {
                if firsts[i].0 < firsts[j].0 && firsts[i].1 >= firsts[j].1 {
                    out.push(Finding { prop: "C03", sig: "cluster:vote-rounds-not-increasing", node, detail: format!("node {} voted in round {} at {} us and then in round {} at {} us", node, firsts[i].1, firsts[i].0, firsts[j].1, firsts[j].0) });
                }
            }
        }
        // none after an own timeout of that (or a higher) round
        let first_tout: BTreeMap<u64, u64> = my_touts.iter().fold(BTreeMap::new(), |mut m, (f, x)| {
            let e = m.entry(x.round).or_insert(f.t);
            *e = (*e).min(f.t);
            m
        });
        for (r, (_, tv)) in &vote_of_round {
            if let Some((tr, tt)) = first_tout.iter().find(|(tr, tt)| **tr >= *r && **tt < *tv) {
                out.push(Finding { prop: "C03", sig: "cluster:vote-after-own-timeout", node, detail: format!("node {} timed out of round {} at {} us and voted in round {} at {} us", node, tr, tt, r, tv) });
            }
            if first_tout.iter().any(|(tr, tt)| *tr < *r && *tt < *tv) {
                obs.votes_after_own_timeout += 1;
            }
        }
        // only safe extensions, only the leader's block (C09 b), payload stored (C08)
        for (r, (h, tv)) in &vote_of_round {
            obs.votes_checked += 1;
            let b = match wire.get(h) {
                Some(b) => b,
                None => continue,
            };
            if b.round != *r {
                out.push(Finding { prop: "C09", sig: "cluster:vote-round-differs-from-block", node, detail: format!("node {} voted in round {} for a block of round {}", node, r, b.round) });
            }
            if w.index_of(&b.author) != Some(w.leader(b.round)) {
                out.push(Finding { prop: "C09", sig: "cluster:vote-for-non-leader-block", node, detail: format!("node {} voted for a round-{} block not authored by that round's leader", node, b.round) });
            }
            let safe = if b.qc.round >= b.round {
                false
            } else if b.qc.round + 1 == b.round {
                true
            } else {
                match &b.tc {
                    Some(tc) => tc.round + 1 == b.round && tc.high_qc_rounds().iter().max().map_or(true, |m| *m <= b.qc.round) && refvalid::ref_tc(w, tc).is_ok(),
                    None => false,
                }
            };
            if !safe {
                out.push(Finding { prop: "C03", sig: "cluster:vote-for-unsafe-extension", node, detail: format!("node {} voted for the block of round {} (QC round {}, TC {:?}) which is neither a direct extension nor justified by a valid TC", node, b.round, b.qc.round, b.tc.as_ref().map(|t| t.round)) });
            }
            if w.index_of(&b.author) != Some(me) {
                let vote_seq = my_votes.iter().filter(|(_, v)| v.round == *r).map(|(f, _)| f.seq).min().unwrap_or(u64::MAX);
                if !b.payload.is_empty() {
                    obs.votes_on_foreign_payload += 1;
                }
                for d in &b.payload {
                    match stored.get(&(node, d.0.to_vec())) {
                        Some(s) if *s < vote_seq => {}
                        _ => out.push(Finding { prop: "C08", sig: "cluster:vote-without-batch-in-store", node, detail: format!("node {} voted (at {} us) for the block of round {} although batch {} was not in its store", node, tv, b.round, crate::rig::short(d)) }),
                    }
                }
            }
        }

        // ------------------------------------------------------------ C10
        // actions in time order: (t, round, kind); own proposals only raise the running maximum
        let mut acts: Vec<(u64, u64, u8)> = Vec::new();
        for (f, v) in &my_votes {
            acts.push((f.t, v.round, 0));
        }
        for (f, x) in &my_touts {
            acts.push((f.t, x.round, 1));
        }
        for (f, b) in &my_props {
            acts.push((f.t, b.round, 2));
        }
        acts.sort();
        let mut max_before: u64 = 0; // max round among actions at strictly earlier instants
        let mut i = 0;
        while i < acts.len() {
            let t0 = acts[i].0;
            let mut j = i;
            while j < acts.len() && acts[j].0 == t0 {
                if acts[j].2 != 2 && acts[j].1 < max_before {
                    out.push(Finding { prop: "C10", sig: "cluster:round-decreased", node, detail: format!("node {} acted in round {} at {} us after having acted in round {}", node, acts[j].1, t0, max_before) });
                }
                j += 1;
            }
            for a in &acts[i..j] {
                max_before = max_before.max(a.1);
            }
            i = j;
        }
        // evidence for the round acted in
        let mut rounds_acted: BTreeMap<u64, u64> = BTreeMap::new(); // round -> latest instant of an action (generous)
        for (t, r, k) in &acts {
            if *k != 2 {
                let e = rounds_acted.entry(*r).or_insert(*t);
                *e = (*e).min(*t);
            }
        }
        for (r, t) in &rounds_acted {
            if *r >= 2 && !avail.cert_of_round(node, *r - 1, *t) {
                out.push(Finding { prop: "C10", sig: "cluster:round-entered-without-certificate", node, detail: format!("node {} acted in round {} at {} us but nothing written to it by then carries, or lets it assemble, a QC or TC of round {}", node, r, t, r - 1) });
            }
        }
        // timeouts carry the highest QC
        for (f, x) in &my_touts {
            obs.timeouts_checked += 1;
            if x.high_qc.round > 0 {
                obs.timeouts_with_real_qc += 1;
            }
            let mut need: u64 = 0;
            let mut why = String::new();
            for (fv, v) in &my_votes {
                if fv.t < f.t {
                    if let Some(b) = wire.get(&v.hash) {
                        if b.qc.round > need {
                            need = b.qc.round;
                            why = format!("the QC (round {}) of the block of round {} it voted for at {} us", b.qc.round, b.round, fv.t);
                        }
                    }
                }
            }
            for (fp, b) in &my_props {
                if fp.t < f.t && b.qc.round > need {
                    need = b.qc.round;
                    why = format!("the QC (round {}) it sent in its proposal of round {} at {} us", b.qc.round, b.round, fp.t);
                }
            }
            for (fx, y) in &my_touts {
                if fx.t < f.t && y.high_qc.round > need {
                    need = y.high_qc.round;
                    why = format!("the QC (round {}) it sent in its timeout of round {} at {} us", y.high_qc.round, y.round, fx.t);
                }
            }
            if x.high_qc.round < need {
                out.push(Finding { prop: "C10", sig: "cluster:timeout-high-qc-too-low", node, detail: format!("node {}'s timeout of round {} at {} us carries a QC of round {}, lower than {}", node, x.round, f.t, x.high_qc.round, why) });
            }
        }

        // ------------------------------------------------------------ C02, C05, C08 on the commit sequence
        if let Some(seq) = commits.get(&node) {
            let mut prev: Option<&Rc<Block>> = None;
            let mut seen: BTreeSet<Vec<u8>> = BTreeSet::new();
            for (k, (t, cseq, b)) in seq.iter().enumerate() {
                obs.commits_checked += 1;
                if b.round == 0 || b.author == crypto::PublicKey::default() {
                    out.push(Finding { prop: "C02", sig: "cluster:genesis-delivered", node, detail: format!("node {} delivered the genesis placeholder at position {}", node, k) });
                    continue;
                }
                if !seen.insert(b.digest().0.to_vec()) {
                    out.push(Finding { prop: "C02", sig: "cluster:block-delivered-twice", node, detail: format!("node {} delivered the block of round {} twice", node, b.round) });
                }
                match prev {
                    None => {
                        if !refvalid::is_genesis_qc(&b.qc) {
                            out.push(Finding { prop: "C02", sig: "cluster:first-delivery-not-child-of-genesis", node, detail: format!("node {}'s first delivered block (round {}) does not extend genesis", node, b.round) });
                        }
                    }
                    Some(p) => {
                        if b.qc.hash != p.digest() {
                            out.push(Finding { prop: "C02", sig: "cluster:delivery-not-child-of-previous", node, detail: format!("node {} delivered the block of round {} right after the block of round {}, which is not its parent", node, b.round, p.round) });
                        }
                        if b.round > p.round + 1 {
                            obs.commit_chain_with_round_gap = true;
                        }
                        if seq[k - 1].0 == *t {
                            obs.multi_block_commit = true;
                        }
                    }
                }
                prev = Some(b);
                for d in &b.payload {
                    match stored.get(&(node, d.0.to_vec())) {
                        Some(s) if *s < *cseq => {}
                        _ => out.push(Finding { prop: "C08", sig: "cluster:commit-without-batch-in-store", node, detail: format!("node {} delivered the block of round {} although batch {} was not in its store", node, b.round, crate::rig::short(d)) }),
                    }
                }
            }
            // C05: every delivery is, at its instant, at or below a block with a certified consecutive child
            let direct = |b: &Block, t: u64| -> bool {
                let d = b.digest();
                wire.values().any(|c| c.qc.hash == d && c.round == b.round + 1 && avail.qc_for(node, &c.digest(), c.round, t))
            };
            let mut k = 0;
            while k < seq.len() {
                let t0 = seq[k].0;
                let mut j = k;
                while j < seq.len() && seq[j].0 == t0 {
                    j += 1;
                }
                // the deliveries of this instant: the last one with direct evidence covers all before it
                let mut covered_upto = k; // exclusive
                for m in (k..j).rev() {
                    let b = &seq[m].2;
                    if b.round == 0 {
                        continue;
                    }
                    if direct(b, t0) {
                        covered_upto = m + 1;
                        break;
                    }
                }
                if covered_upto < j {
                    let b = &seq[j - 1].2;
                    out.push(Finding { prop: "C05", sig: "cluster:commit-without-certified-consecutive-child", node, detail: format!("node {} delivered the block of round {} at {} us, but no block of round {} extending it was certified by anything written to the node (or assembled from votes written to it) by then", node, b.round, t0, b.round + 1) });
                }
                k = j;
            }
        }
    }
    (out, obs)
}

fn render(w: &World, log: &[Event], node: u32, sample: &Value) -> Value {
    let frames = frames_of(log);
    let around: Vec<Value> = frames
        .iter()
        .filter(|f| f.writer == node || f.dst == node)
        .rev()
        .take(std::env::var("VERIF_DUMP").ok().and_then(|v| v.parse().ok()).unwrap_or(120))
        .map(|f| json!({"t_us": f.t, "from": f.writer, "to": f.dst, "msg": crate::solo::render_msg(&f.msg), "dropped": f.dropped}))
        .collect();
    let commits = commits_by_node(log);
    let mine: Vec<Value> = commits.get(&node).map_or(Vec::new(), |v| v.iter().map(|(t, _, b)| json!({"t_us": t, "round": b.round, "digest": crate::rig::short(&b.digest()), "parent": crate::rig::short(&b.qc.hash), "qc_round": b.qc.round})).collect());
    let _ = w;
    json!({"scenario": sample, "node": node, "its_deliveries": mine, "its_consensus_traffic_newest_first": around})
}

fn run_for(prop: &'static str, case: &Case) -> Outcome {
    let s = run_scenario(case);
    let mut out = Outcome::default();
    out.sample = s.sample.clone();
    out.fingerprint = s.fingerprint;
    if s.panicked {
        out.class("skipped:node-panicked");
        return out;
    }
    let (findings, obs) = invariants(&s.w, s.n, &s.log);
    for f in findings.iter().filter(|f| f.prop == prop).take(3) {
        out.violate(f.sig, f.detail.clone(), render(&s.w, &s.log, f.node, &s.sample));
    }
    if obs.view_change {
        out.class("cluster:view-change");
    }
    if obs.sync_request {
        out.class("cluster:sync-traffic");
    }
    if obs.multi_block_commit {
        out.class("cluster:several-blocks-delivered-at-once");
    }
    if obs.commit_chain_with_round_gap {
        out.class("cluster:delivered-chain-with-round-gap");
    }
    if obs.nodes_committing == 0 {
        out.class("cluster:nothing-committed");
    }
    out.nontrivial = match prop {
        "C02" => obs.commits_checked > 0 && (obs.multi_block_commit || obs.commit_chain_with_round_gap),
        "C03" => obs.votes_after_own_timeout > 0,
        "C05" => obs.commits_checked > 0 && obs.view_change,
        "C08" => obs.votes_on_foreign_payload > 0,
        "C09" => obs.view_change && obs.proposers >= 3 && obs.votes_checked > 0,
        "C10" => obs.timeouts_with_real_qc > 0,
        _ => false,
    };
    out
}

macro_rules! part_for {
    ($fname:ident, $pname:ident, $id:expr) => {
        fn $fname(case: &Case, _ctx: &Ctx) -> Outcome {
            run_for($id, case)
        }
        pub fn $pname() -> Part {
            Part { name: "cluster", cfg_len: CFG_LEN, tape_max: 140, quick: 240, thorough: 20_000, max_shrink_iters: 40, run: $fname }
        }
    };
}
part_for!(run_c02, c02_part, "C02");
part_for!(run_c03, c03_part, "C03");
part_for!(run_c05, c05_part, "C05");
part_for!(run_c08, c08_part, "C08");
part_for!(run_c09, c09_part, "C09");
part_for!(run_c10, c10_part, "C10");

pub const RULE: &str = " (cluster) 4..6 real nodes (real node.rs wiring) under a mixed scenario from the tape - per-link delays, a pre-stabilisation period with delays up to 2.5 timeouts, crashes of up to f nodes (at an instant, after k frames, inside a broadcast), one node cut off or silently dropped for 30..2500 ms, one node never receiving a creator's batches, staggered boots, 0..30 client transactions; this property's clauses are evaluated for every node on the recorded history (wire frames, store writes, deliveries), using only order-robust comparisons (strictly earlier virtual instants; a node's own proposals, which the reliable sender may write late, only as the earlier witness).";

pub fn with_rule(base: &'static str) -> &'static str {
    Box::leak(format!("{}{}", base, RULE).into_boxed_str())
}
