//! C17 — quorum arithmetic of both committee types.
use crate::runner::{Ctx, Outcome, Part, PropDef};
use crate::tape::{fnv, Case, Tape};
use crate::world::addr;
use crypto::PublicKey;
use serde_json::json;

pub fn def() -> PropDef {
    PropDef {
        id: "C17",
        level: "exploration",
        rule: "proptest tape -> (total stake n in [1,2^31) with boundary emphasis: 1..12, 3k-1/3k/3k+1, powers of two +-1, 2^31-1; 1..50 authorities; split equal / skewed / one dominant / with zero-stake members) -> both Committee types built from the same stakes. Oracle in u128: 3q>2n, q<=n-f with f=floor((n-1)/3), 2q-n>f, consensus q == mempool q, stake(member)=its stake, stake(unknown)=0; after one member is re-weighted in place (on clones of the queried committees) the same inequalities hold for the new total. Non-trivial: n not a multiple of the authority count, or a zero-stake member present, or n>=2^30; distinct by (n, stake vector) hash.",
        assumptions: &[
            "total stake below 2^31 (the property's stated domain; 2*total overflows u32 above it)",
            "public keys are arbitrary distinct 32-byte strings (committee arithmetic never inspects them)",
        ],
        parts: vec![Part {
            name: "arith",
            cfg_len: 0,
            tape_max: 120,
            quick: 4_000_000,
            thorough: 200_000_000,
            max_shrink_iters: 2000,
            run,
        }],
    }
}

fn gen_total(t: &mut Tape) -> u64 {
    const MAX: u64 = (1u64 << 31) - 1;
    match t.weighted(&[3, 3, 2, 2, 3]) {
        0 => t.range(1, 12),
        1 => {
            let k = t.range(1, 715_827_882); // 3k+1 <= 2^31-1
            let base = 3 * k;
            (base + t.range(0, 2) - 1).clamp(1, MAX)
        }
        2 => {
            let p = t.range(1, 31);
            let v = (1u64 << p) as i64 + t.range(0, 2) as i64 - 1;
            (v as u64).clamp(1, MAX)
        }
        3 => MAX - t.range(0, 5),
        _ => {
            // log-uniform
            let bits = t.range(1, 31);
            let v = t.u64() & ((1u64 << bits) - 1);
            v.clamp(1, MAX)
        }
    }
}

fn gen_split(t: &mut Tape, total: u64) -> Vec<u32> {
    let count = match t.weighted(&[4, 2, 1]) {
        0 => t.range(1, 10),
        1 => t.range(1, 50),
        _ => t.range(1, 4),
    } as usize;
    let mut stakes = vec![0u64; count];
    match t.weighted(&[3, 3, 2, 2]) {
        0 => {
            // as equal as possible
            for (i, s) in stakes.iter_mut().enumerate() {
                *s = total / count as u64 + if (i as u64) < total % count as u64 { 1 } else { 0 };
            }
        }
        1 => {
            // skewed: random cut points
            let mut rest = total;
            for i in 0..count {
                if i == count - 1 {
                    stakes[i] = rest;
                } else {
                    let take = t.range(0, rest);
                    stakes[i] = take;
                    rest -= take;
                }
            }
        }
        2 => {
            // one dominant member, the others share a little
            let dom = t.below(count);
            let small = t.range(0, 3).min(total / count as u64);
            let mut rest = total;
            for i in 0..count {
                if i != dom {
                    stakes[i] = small;
                    rest -= small;
                }
            }
            stakes[dom] = rest;
        }
        _ => {
            // zero-stake members mixed in
            let mut rest = total;
            let mut last_nonzero = 0;
            for i in 0..count {
                if t.chance(1, 3) {
                    continue;
                }
                let take = t.range(0, rest);
                stakes[i] = take;
                rest -= take;
                last_nonzero = i;
            }
            stakes[last_nonzero] += rest;
        }
    }
    stakes.into_iter().map(|s| s as u32).collect()
}

fn key(i: usize, salt: u64) -> PublicKey {
    let mut k = [0u8; 32];
    k[..8].copy_from_slice(&(i as u64).to_le_bytes());
    k[8..16].copy_from_slice(&salt.to_le_bytes());
    k[31] = 0xA5;
    PublicKey(k)
}

fn run(case: &Case, _ctx: &Ctx) -> Outcome {
    let mut t = Tape::new(&case.tape);
    let mut out = Outcome::default();
    let total = gen_total(&mut t);
    let stakes = gen_split(&mut t, total);
    let salt = t.u64();
    let count = stakes.len();
    debug_assert_eq!(stakes.iter().map(|s| *s as u64).sum::<u64>(), total);
    let keys: Vec<PublicKey> = (0..count).map(|i| key(i, salt)).collect();
    let ccom = consensus::Committee::new(
        keys.iter().zip(&stakes).map(|(k, s)| (*k, *s, addr(9000))).collect(),
        1,
    );
    let mcom = mempool::Committee::new(
        keys.iter().zip(&stakes).map(|(k, s)| (*k, *s, addr(9100), addr(9200))).collect(),
        1,
    );
    let q = ccom.quorum_threshold() as u128;
    let qm = mcom.quorum_threshold() as u128;
    let n = total as u128;
    let f = (n - 1) / 3;
    let hist = || json!({"total": total, "stakes": stakes, "consensus_q": q.to_string(), "mempool_q": qm.to_string()});
    if q != qm {
        out.violate("quorum-mismatch", format!("consensus q={} mempool q={} for total {}", q, qm, total), hist());
    }
    for (name, qq) in [("consensus", q), ("mempool", qm)] {
        if !(3 * qq > 2 * n) {
            out.violate("q-not-above-two-thirds", format!("{}: q={} n={}: 3q <= 2n", name, qq, n), hist());
        }
        if !(qq + f <= n) {
            out.violate("q-above-n-minus-f", format!("{}: q={} n={} f={}: q > n-f", name, qq, n, f), hist());
        }
        if !(2 * qq > n + f) {
            out.violate("quorum-overlap-too-small", format!("{}: q={} n={} f={}: 2q-n <= f", name, qq, n, f), hist());
        }
    }
    for (i, k) in keys.iter().enumerate() {
        if ccom.stake(k) != stakes[i] || mcom.stake(k) != stakes[i] {
            out.violate(
                "member-stake-wrong",
                format!("member {} has stake {} but consensus says {} and mempool {}", i, stakes[i], ccom.stake(k), mcom.stake(k)),
                hist(),
            );
        }
    }
    // the threshold follows the committee's CURRENT authorities: re-weight one member in place (the
    // map is a public field, the repository's own fixtures edit it) on the queried committees and on
    // clones of them, and ask again
    {
        let who = t.below(count);
        let old = stakes[who] as u64;
        let room = ((1u64 << 31) - 1) - (total - old);
        let new_stake = match t.weighted(&[2, 2, 1, 1]) {
            0 => t.range(0, room.min(12)),
            1 => t.range(0, room),
            2 => 0,
            _ => room,
        };
        let total2 = total - old + new_stake;
        if total2 >= 1 {
            let mut c1 = ccom.clone();
            let mut m1 = mcom.clone();
            c1.authorities.get_mut(&keys[who]).unwrap().stake = new_stake as u32;
            m1.authorities.get_mut(&keys[who]).unwrap().stake = new_stake as u32;
            let n2 = total2 as u128;
            let f2 = (n2 - 1) / 3;
            for (name, qq) in [("consensus", c1.quorum_threshold() as u128), ("mempool", m1.quorum_threshold() as u128)] {
                if !(3 * qq > 2 * n2 && qq + f2 <= n2 && 2 * qq > n2 + f2) {
                    out.violate(
                        "threshold-stale-after-reweighting",
                        format!("{}: after member {}'s stake changed from {} to {} (total {} -> {}) the threshold is {} (f = {})", name, who, old, new_stake, total, total2, qq, f2),
                        hist(),
                    );
                }
            }
            if c1.stake(&keys[who]) as u64 != new_stake || m1.stake(&keys[who]) as u64 != new_stake {
                out.violate("member-stake-wrong", format!("member {} re-weighted to {} but the committee says {} / {}", who, new_stake, c1.stake(&keys[who]), m1.stake(&keys[who])), hist());
            }
            out.class("re-weighted-in-place");
        }
    }
    let unknown = key(count + 7, salt ^ 0x55);
    let mut unknown2 = keys[t.below(count)];
    unknown2.0[t.below(32)] ^= 1 << t.below(8);
    for u in [unknown, unknown2] {
        if keys.contains(&u) {
            continue;
        }
        if ccom.stake(&u) != 0 || mcom.stake(&u) != 0 {
            out.violate("unknown-authority-has-stake", format!("unknown key has stake {} / {}", ccom.stake(&u), mcom.stake(&u)), hist());
        }
    }
    let has_zero = stakes.iter().any(|s| *s == 0);
    let uneven = total % count as u64 != 0;
    let big = total >= 1 << 30;
    if has_zero {
        out.class("zero-stake-member");
    }
    if uneven {
        out.class("uneven-split");
    }
    if big {
        out.class("total>=2^30");
    }
    out.class(match total % 3 {
        0 => "n=3k",
        1 => "n=3k+1",
        _ => "n=3k+2",
    });
    out.nontrivial = has_zero || uneven || big;
    let mut bytes = total.to_le_bytes().to_vec();
    for s in &stakes {
        bytes.extend(s.to_le_bytes());
    }
    out.fingerprint = fnv(&bytes);
    out.sample = json!({"total": total, "stakes": if count <= 12 { json!(stakes) } else { json!(format!("{} members", count)) }, "q": q.to_string(), "f": f.to_string()});
    out
}
