//! C18 — signatures and key encodings.
use crate::config::{Committee as NodeCommittee, Export, Secret};
use crate::refvalid::{sig_bytes, sig_from_bytes};
use crate::runner::{Ctx, Outcome, Part, PropDef, Tier};
use crate::sim::{scratch_dir, ScratchGuard};
use crate::tape::{fnv, Case, Tape};
use crate::world::{addr, clone_secret};
use crypto::{generate_keypair, Digest, PublicKey, SecretKey, Signature};
use rand::rngs::StdRng;
use rand::SeedableRng;
use serde_json::json;

pub fn def() -> PropDef {
    PropDef {
        id: "C18",
        level: "exploration",
        rule: "proptest tape -> (a) sig: seeded key pair, digest; sign->verify ok, verify fails for another digest, another key and for flipped signature bits (all 512 flips in the thorough tier, 48 tape-chosen per case in quick); (b) batch: 0..12 honest signers over one digest, optionally one member corrupted (signature bit / signed another digest / key swapped) at a tape-chosen position; oracle verify_batch accepts <=> every member verifies individually (individual verification cross-checked against ed25519-dalek verify_strict); (c) enc: decode(encode(k)) = k for arbitrary 32- and 64-byte values (leading/trailing zero bytes emphasised); Secret and Committee written with the node's Export::write to a fresh path and read back field-equal. Non-trivial: (a) always (distinct by key+digest); (b) >=2 members with the corrupted one not first, or size 0/1; (c) key with leading or trailing zero byte or a JSON round trip.",
        assumptions: &[
            "honestly generated key pairs (generate_keypair over a seeded StdRng), as the property states",
            "ed25519-dalek verify_strict is the ground truth for a single signature",
        ],
        parts: vec![
            Part { name: "sig", cfg_len: 0, tape_max: 80, quick: 20_000, thorough: 200_000, max_shrink_iters: 500, run: run_sig },
            Part { name: "batch", cfg_len: 0, tape_max: 80, quick: 60_000, thorough: 2_000_000, max_shrink_iters: 500, run: run_batch },
            Part { name: "enc", cfg_len: 0, tape_max: 120, quick: 150_000, thorough: 5_000_000, max_shrink_iters: 500, run: run_enc },
        ],
    }
}

fn keypair(seed: u64) -> (PublicKey, SecretKey) {
    let mut s = [0u8; 32];
    s[..8].copy_from_slice(&seed.to_le_bytes());
    let mut rng = StdRng::from_seed(s);
    generate_keypair(&mut rng)
}

fn digest_from(t: &mut Tape) -> Digest {
    let b = t.bytes(32);
    let mut d = [0u8; 32];
    d.copy_from_slice(&b);
    Digest(d)
}

fn flip(sig: &Signature, bit: usize) -> Signature {
    let mut b = sig_bytes(sig);
    b[bit / 8] ^= 1 << (bit % 8);
    sig_from_bytes(&b)
}

fn run_sig(case: &Case, ctx: &Ctx) -> Outcome {
    let mut t = Tape::new(&case.tape);
    let mut out = Outcome::default();
    let seed = t.u64();
    let (pk, sk) = keypair(seed);
    let (pk2, _) = keypair(seed ^ 0x9e3779b97f4a7c15);
    let d = digest_from(&mut t);
    let sig = Signature::new(&d, &sk);
    let hist = |what: &str| json!({"key_seed": seed, "digest": base64::encode(d.0), "what": what});
    if sig.verify(&d, &pk).is_err() {
        out.violate("valid-signature-rejected", "sign->verify failed for an honest key pair".into(), hist("verify"));
    }
    if !crate::refvalid::sig_ok(&sig, &d, &pk) {
        out.violate("valid-signature-rejected-by-dalek", "signature produced by Signature::new does not verify under ed25519-dalek".into(), hist("dalek"));
    }
    // another digest
    let mut d2 = d.clone();
    let byte = t.below(32);
    d2.0[byte] ^= 1 << t.below(8);
    if sig.verify(&d2, &pk).is_ok() {
        out.violate("signature-accepted-for-other-digest", format!("digest byte {} changed, still verifies", byte), hist("digest"));
    }
    if sig.verify(&d, &pk2).is_ok() {
        out.violate("signature-accepted-for-other-key", "verifies under an unrelated key".into(), hist("key"));
    }
    let bits: Vec<usize> = if ctx.tier == Tier::Thorough || ctx.replay {
        (0..512).collect()
    } else {
        (0..48).map(|_| t.below(512)).collect()
    };
    for bit in bits {
        let bad = flip(&sig, bit);
        if bad.verify(&d, &pk).is_ok() {
            out.violate("bitflipped-signature-accepted", format!("signature bit {} flipped, still verifies", bit), hist("bitflip"));
            break;
        }
    }
    // single-member batch agrees with individual verification
    let votes = vec![(pk, sig.clone())];
    if Signature::verify_batch(&d, &votes).is_err() {
        out.violate("valid-batch-rejected", "batch of one honest signature rejected".into(), hist("batch1"));
    }
    out.nontrivial = true;
    out.fingerprint = fnv(&[&seed.to_le_bytes()[..], &d.0[..]].concat());
    out.sample = json!({"key_seed": seed, "public_key": pk.encode_base64(), "digest": base64::encode(d.0)});
    out
}

fn run_batch(case: &Case, _ctx: &Ctx) -> Outcome {
    let mut t = Tape::new(&case.tape);
    let mut out = Outcome::default();
    let size = match t.weighted(&[6, 1, 1]) {
        0 => t.range(2, 12),
        1 => 0,
        _ => 1,
    } as usize;
    let base = t.u64();
    let d = digest_from(&mut t);
    let keys: Vec<(PublicKey, SecretKey)> = (0..size).map(|i| keypair(base.wrapping_add(i as u64 * 7919))).collect();
    let mut votes: Vec<(PublicKey, Signature)> = keys.iter().map(|(p, s)| (*p, Signature::new(&d, s))).collect();
    let corrupt = if size > 0 { t.weighted(&[1, 1, 1, 1]) } else { 0 };
    let pos = if size > 0 { t.below(size) } else { 0 };
    let what = match corrupt {
        0 => "none",
        1 => {
            let bit = t.below(512);
            votes[pos].1 = flip(&votes[pos].1, bit);
            "signature-bit"
        }
        2 => {
            let mut d2 = d.clone();
            d2.0[t.below(32)] ^= 1 << t.below(8);
            votes[pos].1 = Signature::new(&d2, &keys[pos].1);
            "other-digest"
        }
        _ => {
            // signature of another honest key under this member's name
            let (_, other) = keypair(base ^ 0xdead_beef);
            votes[pos].1 = Signature::new(&d, &other);
            "other-key"
        }
    };
    let individual: Vec<bool> = votes.iter().map(|(p, s)| s.verify(&d, p).is_ok()).collect();
    let dalek: Vec<bool> = votes.iter().map(|(p, s)| crate::refvalid::sig_ok(s, &d, p)).collect();
    let all = individual.iter().all(|x| *x);
    let batch = Signature::verify_batch(&d, &votes).is_ok();
    let hist = json!({"size": size, "corruption": what, "position": pos, "individual": individual, "batch_accepts": batch, "key_seed_base": base});
    if individual != dalek {
        out.violate("verify-disagrees-with-dalek", format!("Signature::verify {:?} vs verify_strict {:?}", individual, dalek), hist.clone());
    }
    if corrupt == 0 && !all {
        out.violate("valid-signature-rejected", "honest member fails individual verification".into(), hist.clone());
    }
    if corrupt != 0 && all {
        out.violate("corrupted-member-verifies", format!("corruption {} at {} still verifies individually", what, pos), hist.clone());
    }
    if batch != all {
        let sig = if batch { "batch-accepts-invalid-member" } else { "batch-rejects-valid-members" };
        out.violate(sig, format!("verify_batch={} but individual results {:?} (size {}, corruption {} at {})", batch, individual, size, what, pos), hist.clone());
    }
    out.class(&format!("corruption={}", what));
    out.class(&format!("size={}", if size >= 2 { "2+".to_string() } else { size.to_string() }));
    out.nontrivial = size < 2 || (corrupt != 0 && pos > 0) || corrupt == 0;
    if corrupt != 0 && pos > 0 {
        out.class("corrupted-member-not-first");
    }
    out.fingerprint = fnv(format!("{}|{}|{}|{}|{:?}", base, size, what, pos, d.0).as_bytes());
    out.sample = hist;
    out
}

fn run_enc(case: &Case, _ctx: &Ctx) -> Outcome {
    let mut t = Tape::new(&case.tape);
    let mut out = Outcome::default();
    let mode = t.weighted(&[4, 4, 3]);
    match mode {
        0 => {
            // public key: arbitrary 32 bytes
            let mut b = t.bytes(32);
            let lead = t.below(4);
            let trail = t.below(4);
            for x in b.iter_mut().take(lead) {
                *x = 0;
            }
            for x in b.iter_mut().rev().take(trail) {
                *x = 0;
            }
            let mut a = [0u8; 32];
            a.copy_from_slice(&b);
            let k = PublicKey(a);
            let text = k.encode_base64();
            match PublicKey::decode_base64(&text) {
                Ok(k2) if k2 == k => {}
                Ok(k2) => out.violate("public-key-roundtrip-changed", format!("{} decoded to {}", text, k2.encode_base64()), json!({"key": text})),
                Err(e) => out.violate("public-key-roundtrip-failed", format!("{} does not decode: {}", text, e), json!({"key": text})),
            }
            // through serde (bincode and JSON), the way keys travel in messages and files
            let bin = bincode::serialize(&k).unwrap();
            match bincode::deserialize::<PublicKey>(&bin) {
                Ok(k2) if k2 == k => {}
                _ => out.violate("public-key-bincode-roundtrip", format!("{} changed through bincode", text), json!({"key": text})),
            }
            let js = serde_json::to_string(&k).unwrap();
            match serde_json::from_str::<PublicKey>(&js) {
                Ok(k2) if k2 == k => {}
                _ => out.violate("public-key-json-roundtrip", format!("{} changed through JSON", text), json!({"key": text})),
            }
            out.class("public-key");
            out.nontrivial = lead > 0 || trail > 0;
            if out.nontrivial {
                out.class("zero-edge-bytes");
            }
            out.fingerprint = fnv(&a);
            out.sample = json!({"public_key": text, "leading_zero_bytes": lead, "trailing_zero_bytes": trail});
        }
        1 => {
            // secret key: arbitrary 64 bytes (through text), and a generated one
            let mut b = t.bytes(64);
            let lead = t.below(4);
            let trail = t.below(4);
            for x in b.iter_mut().take(lead) {
                *x = 0;
            }
            for x in b.iter_mut().rev().take(trail) {
                *x = 0;
            }
            let text = base64::encode(&b);
            match SecretKey::decode_base64(&text) {
                Ok(k) => {
                    let again = k.encode_base64();
                    if again != text {
                        out.violate("secret-key-roundtrip-changed", format!("{} re-encodes as {}", text, again), json!({"key": text}));
                    }
                    let js = serde_json::to_string(&k).unwrap();
                    match serde_json::from_str::<SecretKey>(&js) {
                        Ok(k2) if k2.encode_base64() == text => {}
                        _ => out.violate("secret-key-json-roundtrip", "secret key changed through JSON".into(), json!({"key": text})),
                    }
                }
                Err(e) => out.violate("secret-key-roundtrip-failed", format!("{} does not decode: {}", text, e), json!({"key": text})),
            }
            let (pk, sk) = keypair(t.u64());
            let sk2 = clone_secret(&sk);
            let d = digest_from(&mut t);
            if Signature::new(&d, &sk2).verify(&d, &pk).is_err() {
                out.violate("secret-key-roundtrip-breaks-signing", "decoded secret key signs differently".into(), json!({}));
            }
            out.class("secret-key");
            out.nontrivial = lead > 0 || trail > 0;
            out.fingerprint = fnv(&b);
            out.sample = json!({"secret_key_len": 64, "leading_zero_bytes": lead, "trailing_zero_bytes": trail});
        }
        2 => {
            // JSON key and committee files through the node's Export
            let dir = scratch_dir("c18");
            let _g = ScratchGuard(dir.clone());
            let seed = t.u64();
            let (name, secret) = keypair(seed);
            let expect_secret = secret.encode_base64();
            let s = Secret { name, secret };
            let path = format!("{}/key.json", dir);
            let mut ok = true;
            if let Err(e) = s.write(&path) {
                out.violate("secret-file-write-failed", format!("{}", e), json!({}));
                ok = false;
            }
            if ok {
                match Secret::read(&path) {
                    Ok(s2) => {
                        if s2.name != name || s2.secret.encode_base64() != expect_secret {
                            out.violate("secret-file-roundtrip-changed", "Secret read back differs".into(), json!({"name": name.encode_base64()}));
                        }
                    }
                    Err(e) => out.violate("secret-file-read-failed", format!("{}", e), json!({})),
                }
            }
            let n = t.range(1, 8) as usize;
            let members: Vec<(PublicKey, u32, u16)> = (0..n)
                .map(|i| (keypair(seed.wrapping_add(1 + i as u64)).0, t.range(0, 1 << 20) as u32, t.range(1, 60000) as u16))
                .collect();
            let epoch = t.u64() as u128;
            let com = NodeCommittee {
                consensus: consensus::Committee::new(members.iter().map(|(k, s, p)| (*k, *s, addr(*p))).collect(), epoch),
                mempool: mempool::Committee::new(
                    members.iter().map(|(k, s, p)| (*k, *s, addr(p.wrapping_add(1).max(1)), addr(p.wrapping_add(2).max(1)))).collect(),
                    epoch,
                ),
            };
            let cpath = format!("{}/committee.json", dir);
            match com.write(&cpath).and_then(|_| NodeCommittee::read(&cpath)) {
                Ok(c2) => {
                    let mut same = c2.consensus.epoch == epoch && c2.mempool.epoch == epoch;
                    same &= c2.consensus.authorities.len() == n && c2.mempool.authorities.len() == n;
                    for (k, s, p) in &members {
                        same &= c2.consensus.stake(k) == *s && c2.mempool.stake(k) == *s;
                        same &= c2.consensus.address(k) == Some(addr(*p));
                        same &= c2.mempool.transactions_address(k) == Some(addr(p.wrapping_add(1).max(1)));
                        same &= c2.mempool.mempool_address(k) == Some(addr(p.wrapping_add(2).max(1)));
                    }
                    if !same {
                        out.violate("committee-file-roundtrip-changed", "Committee read back differs".into(), json!({"members": n}));
                    }
                }
                Err(e) => out.violate("committee-file-roundtrip-failed", format!("{}", e), json!({"members": n})),
            }
            out.class("json-files");
            out.nontrivial = true;
            out.fingerprint = fnv(format!("{}|{:?}", seed, members.iter().map(|m| (m.1, m.2)).collect::<Vec<_>>()).as_bytes());
            out.sample = json!({"key_seed": seed, "committee_members": n, "epoch": epoch.to_string()});
        }
        _ => unreachable!(),
    }
    out
}
