//! C04 — only correctly signed, quorum-backed messages count.
//! Part (a): differential between the repository's `verify` functions and the independent
//! `ref_valid` predicate over mutated / spliced / re-weighted messages (both directions).
//! Part (b) (solo rig, see solo_props): non-interference of rejected messages.
use crate::refvalid::{self, sig_bytes, sig_from_bytes};
use crate::runner::{Ctx, Outcome, Part, PropDef};
use crate::tape::{fnv, Case, Tape};
use crate::world::World;
use consensus::{Block, ConsensusMessage, Timeout, Vote, QC, TC};
use crypto::{Digest, Hash as _, PublicKey, Signature};
use serde_json::json;

pub fn def() -> PropDef {
    let mut parts = vec![Part {
        name: "verify-differential",
        cfg_len: 0,
        tape_max: 200,
        quick: 150_000,
        thorough: 5_000_000,
        max_shrink_iters: 1500,
        run: run_diff,
    }];
    parts.push(crate::props::solo_props::c04_part());
    PropDef {
        id: "C04",
        level: "exploration",
        rule: "proptest tape -> (verify-differential) committee of 1..8 members with equal/unequal stakes (optionally re-weighted after signing so the signer set lands just below/at/above quorum, optionally with a zero-stake member); a valid Block (genesis or certified parent, with or without TC) / Vote / Timeout / QC / TC crafted with the members' keys; 0..3 mutations: signature bit flip, signature transplanted from another round / block / message kind / author, signer repeated, signer replaced by a non-member, signer subset trimmed around the quorum boundary, signature entries swapped, signed field edited after signing (round, block hash, payload, author, TC high-QC round), valid TC or QC vote list swapped for another valid one (must stay valid), bit flip in the serialized form followed by re-decoding. Oracle: X.verify(committee).is_ok() == ref_valid(X) in both directions. (non-interference, solo rig) paired runs of one script with and without injected messages that ref_valid rejects or that come from wrong leaders: the real node's emitted messages per destination, commits and store writes must be identical. Non-trivial: at least one mutation applied and the message still decodes; distinct by (kind, mutation list, committee) hash.",
        assumptions: &[
            "ed25519-dalek verify_strict is the ground truth for single signatures; algebraic signature malleations that need the secret key (small-order components) are outside the property's quantifier and are not generated",
            "a certificate naming a zero-stake committee member is a don't-care (the property text does not say whether such a signer counts); these cases are counted and skipped",
            "a QC equal to the genesis placeholder (hash 0, round 0) is valid wherever embedded (the repository's documented convention)",
        ],
        parts,
    }
}

fn flip_sig(sig: &Signature, bit: usize) -> Signature {
    let mut b = sig_bytes(sig);
    b[(bit / 8) % 64] ^= 1 << (bit % 8);
    sig_from_bytes(&b)
}

#[derive(Clone)]
enum Msg {
    Block(Block),
    Vote(Vote),
    Timeout(Timeout),
    QC(QC),
    TC(TC),
}

struct Gen<'a, 'b> {
    t: &'a mut Tape<'b>,
    w: &'a World,
    outsider: &'a World,
    muts: Vec<String>,
}

impl<'a, 'b> Gen<'a, 'b> {
    fn members(&self) -> Vec<usize> {
        (0..self.w.n).collect()
    }

    fn quorum_set(&mut self) -> Vec<usize> {
        // a random order of members, cut at the quorum (so different subsets cross the threshold)
        let mut order = self.members();
        for i in (1..order.len()).rev() {
            let j = self.t.below(i + 1);
            order.swap(i, j);
        }
        let positive: Vec<usize> = order.iter().copied().filter(|i| self.w.stakes[*i] > 0).collect();
        match self.w.quorum_subset(&positive) {
            Some(mut s) => {
                // sometimes keep extra signers beyond the quorum
                if self.t.chance(1, 4) {
                    for i in positive {
                        if !s.contains(&i) && self.t.chance(1, 2) {
                            s.push(i);
                        }
                    }
                }
                s
            }
            None => positive,
        }
    }

    fn valid_qc(&mut self, round: u64) -> (QC, Block) {
        let b = self.w.block(self.w.leader(round), round, QC::genesis(), None, Vec::new());
        let signers = self.quorum_set();
        (self.w.qc(&b, &signers), b)
    }

    fn valid_tc(&mut self, round: u64, max_hq: u64) -> TC {
        let signers = self.quorum_set();
        let entries: Vec<(usize, u64)> = signers.iter().map(|i| (*i, self.t.range(0, max_hq))).collect();
        self.w.tc(round, &entries)
    }

    fn mutate_cert_votes(&mut self, votes: &mut Vec<(PublicKey, Signature)>, hash: &Digest, round: u64) {
        if votes.is_empty() {
            return;
        }
        let n = votes.len();
        match self.t.below(8) {
            0 => {
                let i = self.t.below(n);
                let bit = self.t.below(512);
                votes[i].1 = flip_sig(&votes[i].1, bit);
                self.muts.push("cert-sig-bitflip".into());
            }
            1 => {
                let i = self.t.below(n);
                let dup = votes[i].clone();
                votes.push(dup);
                self.muts.push("cert-repeat-signer".into());
            }
            2 => {
                // non-member signer with a correct signature of its own
                let i = self.t.below(n);
                let d = refvalid::vote_digest(hash, round);
                let o = self.t.below(self.outsider.n);
                votes[i] = (self.outsider.pk(o), self.outsider.sign(o, &d));
                self.muts.push("cert-non-member".into());
            }
            3 => {
                // trim to just below / exactly at the quorum boundary
                let drop = 1 + self.t.below(n.min(2));
                for _ in 0..drop {
                    if !votes.is_empty() {
                        let i = self.t.below(votes.len());
                        votes.remove(i);
                    }
                }
                self.muts.push("cert-trim".into());
            }
            4 if n >= 2 => {
                let i = self.t.below(n);
                let j = (i + 1 + self.t.below(n - 1)) % n;
                let tmp = votes[i].1.clone();
                votes[i].1 = votes[j].1.clone();
                votes[j].1 = tmp;
                self.muts.push("cert-swap-signatures".into());
            }
            5 => {
                // signature of the right member transplanted from another round
                let i = self.t.below(n);
                if let Some(idx) = self.w.index_of(&votes[i].0) {
                    let d = refvalid::vote_digest(hash, round ^ (1 << self.t.below(8)));
                    votes[i].1 = self.w.sign(idx, &d);
                    self.muts.push("cert-sig-from-other-round".into());
                }
            }
            6 => {
                // signature of the right member over the timeout digest of the same round (other kind)
                let i = self.t.below(n);
                if let Some(idx) = self.w.index_of(&votes[i].0) {
                    let d = refvalid::timeout_digest(round, round.saturating_sub(1));
                    votes[i].1 = self.w.sign(idx, &d);
                    self.muts.push("cert-sig-from-other-kind".into());
                }
            }
            _ => {
                // key of another member under a signature that is not theirs
                let i = self.t.below(n);
                let other = self.t.below(self.w.n);
                votes[i].0 = self.w.pk(other);
                self.muts.push("cert-key-swapped".into());
            }
        }
    }

    fn mutate_qc(&mut self, qc: &mut QC) {
        match self.t.below(5) {
            0 => {
                qc.round ^= 1 << self.t.below(10);
                self.muts.push("qc-round-edited".into());
            }
            1 => {
                qc.hash.0[self.t.below(32)] ^= 1 << self.t.below(8);
                self.muts.push("qc-hash-edited".into());
            }
            _ => {
                let (h, r) = (qc.hash.clone(), qc.round);
                self.mutate_cert_votes(&mut qc.votes, &h, r);
            }
        }
    }

    fn mutate_tc(&mut self, tc: &mut TC) {
        if tc.votes.is_empty() {
            return;
        }
        let n = tc.votes.len();
        match self.t.below(8) {
            0 => {
                tc.round ^= 1 << self.t.below(10);
                self.muts.push("tc-round-edited".into());
            }
            1 => {
                let i = self.t.below(n);
                tc.votes[i].2 ^= 1 << self.t.below(6);
                self.muts.push("tc-high-qc-round-edited".into());
            }
            2 => {
                let i = self.t.below(n);
                let bit = self.t.below(512);
                tc.votes[i].1 = flip_sig(&tc.votes[i].1, bit);
                self.muts.push("tc-sig-bitflip".into());
            }
            3 => {
                let i = self.t.below(n);
                let dup = tc.votes[i].clone();
                tc.votes.push(dup);
                self.muts.push("tc-repeat-signer".into());
            }
            4 => {
                let i = self.t.below(n);
                let o = self.t.below(self.outsider.n);
                let d = refvalid::timeout_digest(tc.round, tc.votes[i].2);
                tc.votes[i] = (self.outsider.pk(o), self.outsider.sign(o, &d), tc.votes[i].2);
                self.muts.push("tc-non-member".into());
            }
            5 => {
                let drop = 1 + self.t.below(n.min(2));
                for _ in 0..drop {
                    if !tc.votes.is_empty() {
                        let i = self.t.below(tc.votes.len());
                        tc.votes.remove(i);
                    }
                }
                self.muts.push("tc-trim".into());
            }
            6 => {
                // vote signature (other kind) of the right member for this round
                let i = self.t.below(n);
                if let Some(idx) = self.w.index_of(&tc.votes[i].0) {
                    let d = refvalid::vote_digest(&Digest::default(), tc.round);
                    tc.votes[i].1 = self.w.sign(idx, &d);
                    self.muts.push("tc-sig-from-other-kind".into());
                }
            }
            _ => {
                // entries signed for another round (a TC of round r-1 relabelled)
                let i = self.t.below(n);
                if let Some(idx) = self.w.index_of(&tc.votes[i].0) {
                    let d = refvalid::timeout_digest(tc.round.wrapping_add(1), tc.votes[i].2);
                    tc.votes[i].1 = self.w.sign(idx, &d);
                    self.muts.push("tc-sig-from-other-round".into());
                }
            }
        }
    }

    fn mutate(&mut self, m: &mut Msg) {
        match m {
            Msg::QC(qc) => self.mutate_qc(qc),
            Msg::TC(tc) => self.mutate_tc(tc),
            Msg::Vote(v) => match self.t.below(7) {
                0 => {
                    let bit = self.t.below(512);
                    v.signature = flip_sig(&v.signature, bit);
                    self.muts.push("vote-sig-bitflip".into());
                }
                1 => {
                    v.round ^= 1 << self.t.below(10);
                    self.muts.push("vote-round-edited".into());
                }
                2 => {
                    v.hash.0[self.t.below(32)] ^= 1 << self.t.below(8);
                    self.muts.push("vote-hash-edited".into());
                }
                3 => {
                    v.author = self.w.pk(self.t.below(self.w.n));
                    self.muts.push("vote-author-swapped".into());
                }
                4 => {
                    let o = self.t.below(self.outsider.n);
                    v.author = self.outsider.pk(o);
                    v.signature = self.outsider.sign(o, &refvalid::vote_digest(&v.hash, v.round));
                    self.muts.push("vote-non-member".into());
                }
                5 => {
                    if let Some(idx) = self.w.index_of(&v.author) {
                        // the author's proposal-style signature over the voted block digest itself
                        v.signature = self.w.sign(idx, &v.hash);
                        self.muts.push("vote-sig-from-other-kind".into());
                    }
                }
                _ => {
                    if let Some(idx) = self.w.index_of(&v.author) {
                        v.signature = self.w.sign(idx, &refvalid::timeout_digest(v.round, 0));
                        self.muts.push("vote-sig-from-timeout".into());
                    }
                }
            },
            Msg::Timeout(x) => match self.t.below(8) {
                0 => {
                    let bit = self.t.below(512);
                    x.signature = flip_sig(&x.signature, bit);
                    self.muts.push("timeout-sig-bitflip".into());
                }
                1 => {
                    x.round ^= 1 << self.t.below(10);
                    self.muts.push("timeout-round-edited".into());
                }
                2 => {
                    x.author = self.w.pk(self.t.below(self.w.n));
                    self.muts.push("timeout-author-swapped".into());
                }
                3 => {
                    let o = self.t.below(self.outsider.n);
                    x.author = self.outsider.pk(o);
                    x.signature = self.outsider.sign(o, &refvalid::timeout_digest(x.round, x.high_qc.round));
                    self.muts.push("timeout-non-member".into());
                }
                4 => {
                    // another valid high QC of a different round: signature no longer matches
                    let r = x.high_qc.round + 1 + self.t.below(3) as u64;
                    let (qc, _) = self.valid_qc(r);
                    x.high_qc = qc;
                    self.muts.push("timeout-high-qc-replaced".into());
                }
                5 => {
                    if let Some(idx) = self.w.index_of(&x.author) {
                        x.signature = self.w.sign(idx, &refvalid::vote_digest(&x.high_qc.hash, x.round));
                        self.muts.push("timeout-sig-from-vote".into());
                    }
                }
                _ => {
                    let mut qc = x.high_qc.clone();
                    self.mutate_qc(&mut qc);
                    x.high_qc = qc;
                }
            },
            Msg::Block(b) => match self.t.below(10) {
                0 => {
                    let bit = self.t.below(512);
                    b.signature = flip_sig(&b.signature, bit);
                    self.muts.push("block-sig-bitflip".into());
                }
                1 => {
                    b.round ^= 1 << self.t.below(10);
                    self.muts.push("block-round-edited".into());
                }
                2 => {
                    b.payload.push(crate::world::sha512_32(&self.t.bytes(4)));
                    self.muts.push("block-payload-edited".into());
                }
                3 => {
                    b.author = self.w.pk(self.t.below(self.w.n));
                    self.muts.push("block-author-swapped".into());
                }
                4 => {
                    let o = self.t.below(self.outsider.n);
                    b.author = self.outsider.pk(o);
                    b.signature = self.outsider.sign(o, &refvalid::block_digest(b));
                    self.muts.push("block-non-member".into());
                }
                5 => {
                    if let Some(tc) = &b.tc {
                        // swap in another VALID TC: the author's signature does not cover it -> stays valid
                        let r = tc.round;
                        let max = b.qc.round;
                        b.tc = Some(self.valid_tc(r, max));
                        self.muts.push("block-tc-swapped-for-valid".into());
                    } else {
                        let r = b.round.saturating_sub(1);
                        b.tc = Some(self.valid_tc(r, b.qc.round));
                        self.muts.push("block-valid-tc-added".into());
                    }
                }
                6 => {
                    if let Some(mut tc) = b.tc.clone() {
                        self.mutate_tc(&mut tc);
                        b.tc = Some(tc);
                    } else {
                        let mut tc = self.valid_tc(b.round.saturating_sub(1), b.qc.round);
                        self.mutate_tc(&mut tc);
                        b.tc = Some(tc);
                    }
                }
                7 => {
                    if let Some(idx) = self.w.index_of(&b.author) {
                        // the author's vote-style signature (other kind) on this block
                        b.signature = self.w.sign(idx, &refvalid::vote_digest(&refvalid::block_digest(b), b.round));
                        self.muts.push("block-sig-from-vote".into());
                    }
                }
                8 => {
                    // the QC's vote list replaced by a differently composed valid list: still valid
                    if !refvalid::is_genesis_qc(&b.qc) {
                        let signers = self.quorum_set();
                        b.qc = self.w.qc_for(b.qc.hash.clone(), b.qc.round, &signers);
                        self.muts.push("block-qc-votes-recomposed".into());
                    }
                }
                _ => {
                    if refvalid::is_genesis_qc(&b.qc) {
                        // forged "genesis" with a non-zero round or hash is a plain unsigned QC
                        if self.t.chance(1, 2) {
                            b.qc.round = 1 + self.t.below(3) as u64;
                            self.muts.push("block-genesis-qc-round-edited".into());
                        } else {
                            b.qc.votes.push((self.w.pk(0), Signature::default()));
                            self.muts.push("block-genesis-qc-with-junk-votes".into());
                        }
                    } else {
                        let mut qc = b.qc.clone();
                        self.mutate_qc(&mut qc);
                        b.qc = qc;
                    }
                }
            },
        }
    }
}

fn verdicts(m: &Msg, eval: &World) -> (bool, Result<(), refvalid::Reject>) {
    match m {
        Msg::Block(b) => (b.verify(&eval.ccom).is_ok(), refvalid::ref_block(eval, b)),
        Msg::Vote(v) => (v.verify(&eval.ccom).is_ok(), refvalid::ref_vote(eval, v)),
        Msg::Timeout(t) => (t.verify(&eval.ccom).is_ok(), refvalid::ref_timeout(eval, t)),
        Msg::QC(q) => (q.verify(&eval.ccom).is_ok(), refvalid::ref_qc(eval, q)),
        Msg::TC(t) => (t.verify(&eval.ccom).is_ok(), refvalid::ref_tc(eval, t)),
    }
}

fn cert_keys(m: &Msg) -> Vec<PublicKey> {
    let mut out = Vec::new();
    let mut qc = |q: &QC| out.extend(q.votes.iter().map(|(k, _)| *k));
    match m {
        Msg::Block(b) => {
            qc(&b.qc);
            if let Some(tc) = &b.tc {
                out.extend(tc.votes.iter().map(|(k, _, _)| *k));
            }
        }
        Msg::Timeout(t) => qc(&t.high_qc),
        Msg::QC(q) => qc(q),
        Msg::TC(tc) => out.extend(tc.votes.iter().map(|(k, _, _)| *k)),
        Msg::Vote(_) => {}
    }
    out
}

fn kind_name(m: &Msg) -> &'static str {
    match m {
        Msg::Block(_) => "block",
        Msg::Vote(_) => "vote",
        Msg::Timeout(_) => "timeout",
        Msg::QC(_) => "qc",
        Msg::TC(_) => "tc",
    }
}

fn wire(m: &Msg) -> Option<ConsensusMessage> {
    match m {
        Msg::Block(b) => Some(ConsensusMessage::Propose(b.clone())),
        Msg::Vote(v) => Some(ConsensusMessage::Vote(v.clone())),
        Msg::Timeout(t) => Some(ConsensusMessage::Timeout(t.clone())),
        Msg::TC(t) => Some(ConsensusMessage::TC(t.clone())),
        Msg::QC(_) => None,
    }
}

fn run_diff(case: &Case, _ctx: &Ctx) -> Outcome {
    let mut t = Tape::new(&case.tape);
    let mut out = Outcome::default();
    let n = match t.weighted(&[6, 1, 1]) {
        0 => t.range(4, 8),
        1 => t.range(1, 3),
        _ => 4,
    } as usize;
    let profile = t.below(4) as u64;
    let mut stakes = crate::world::stakes_profile(n, profile, t.below(5) as u64);
    let zero_member = n >= 5 && t.chance(1, 10);
    if zero_member {
        let z = t.below(n);
        stakes[z] = 0;
    }
    let key_seed = t.below(4) as u64;
    let w = World::new(&stakes, key_seed);
    let outsider = World::new(&[1, 1, 1], 1000 + key_seed);
    // Re-weighting: the committee used to evaluate may differ from the one used to sign.
    let reweight = t.chance(1, 5);
    let eval = if reweight {
        let mut s2 = stakes.clone();
        let k = 1 + t.below(2);
        for _ in 0..k {
            let i = t.below(n);
            s2[i] = match t.below(3) {
                0 => s2[i].saturating_add(1 + t.below(3) as u32),
                1 => s2[i].saturating_sub(1).max(if zero_member { 0 } else { 1 }),
                _ => 1 + t.below(5) as u32,
            };
        }
        World::new(&s2, key_seed)
    } else {
        World::new(&stakes, key_seed)
    };
    let kind = t.weighted(&[4, 2, 3, 3, 3]);
    let round = t.range(2, 200);
    let mut g = Gen { t: &mut t, w: &w, outsider: &outsider, muts: Vec::new() };
    let mut msg = match kind {
        0 => {
            let with_tc = g.t.chance(1, 3);
            let genesis_parent = g.t.chance(1, 5);
            let (qc, _) = if genesis_parent { (QC::genesis(), Block::genesis()) } else { g.valid_qc(round - 1) };
            let (r, tc) = if with_tc {
                let gap = 1 + g.t.below(4) as u64;
                let tr = round - 1 + gap;
                let max = qc.round;
                (tr + 1, Some(g.valid_tc(tr, max)))
            } else {
                (round, None)
            };
            let np = g.t.below(3);
            let payload = (0..np).map(|i| crate::world::sha512_32(&[i as u8])).collect();
            let author = if g.t.chance(1, 6) { g.t.below(n) } else { w.leader(r) };
            Msg::Block(w.block(author, r, qc, tc, payload))
        }
        1 => {
            let b = w.block(w.leader(round), round, QC::genesis(), None, Vec::new());
            Msg::Vote(w.vote(g.t.below(n), &b))
        }
        2 => {
            let hr = 1 + g.t.below(round as usize - 1) as u64;
            let hq = if g.t.chance(1, 4) { QC::genesis() } else { g.valid_qc(hr).0 };
            Msg::Timeout(w.timeout(g.t.below(n), round, hq))
        }
        3 => Msg::QC(g.valid_qc(round).0),
        _ => Msg::TC(g.valid_tc(round, round - 1)),
    };
    let nm = g.t.weighted(&[2, 6, 3, 1]);
    for _ in 0..nm {
        g.mutate(&mut msg);
    }
    // byte-level flip of the serialized form, re-decoded
    let mut byte_mutated = false;
    if g.t.chance(1, 6) {
        if let Some(cm) = wire(&msg) {
            let mut bytes = bincode::serialize(&cm).unwrap();
            let flips = 1 + g.t.below(2);
            for _ in 0..flips {
                let i = g.t.below(bytes.len());
                bytes[i] ^= 1 << g.t.below(8);
            }
            match bincode::deserialize::<ConsensusMessage>(&bytes) {
                Ok(ConsensusMessage::Propose(b)) => msg = Msg::Block(b),
                Ok(ConsensusMessage::Vote(v)) => msg = Msg::Vote(v),
                Ok(ConsensusMessage::Timeout(x)) => msg = Msg::Timeout(x),
                Ok(ConsensusMessage::TC(x)) => msg = Msg::TC(x),
                Ok(ConsensusMessage::SyncRequest(..)) | Err(_) => {
                    out.class("byte-flip-undecodable");
                }
            }
            byte_mutated = true;
            g.muts.push("wire-bitflip".into());
        }
    }
    let muts = g.muts.clone();
    drop(g);
    let dont_care = refvalid::has_zero_stake_signer(&eval, cert_keys(&msg).into_iter());
    let (code, reference) = verdicts(&msg, &eval);
    let name = kind_name(&msg);
    let hist = json!({
        "kind": name, "n": n, "signing_stakes": stakes, "evaluation_stakes": eval.stakes, "quorum": eval.quorum(),
        "mutations": muts, "verify_ok": code, "reference": format!("{:?}", reference),
        "message": base64::encode(match &msg {
            Msg::Block(b) => bincode::serialize(b).unwrap(),
            Msg::Vote(b) => bincode::serialize(b).unwrap(),
            Msg::Timeout(b) => bincode::serialize(b).unwrap(),
            Msg::QC(b) => bincode::serialize(b).unwrap(),
            Msg::TC(b) => bincode::serialize(b).unwrap(),
        }),
    });
    if dont_care {
        out.class("dont-care:zero-stake-signer");
    } else if code != reference.is_ok() {
        let sig = if code {
            format!("{}-accepted-but-invalid:{:?}", name, reference.err().unwrap())
        } else {
            format!("{}-rejected-but-valid", name)
        };
        out.violate(&sig, format!("verify says {} but the reference predicate says {:?}; mutations {:?}", if code { "ok" } else { "reject" }, reference, muts), hist.clone());
    }
    out.class(&format!("{}:{}", name, match &reference { Ok(()) => "valid".to_string(), Err(e) => format!("{:?}", e) }));
    for m in &muts {
        out.class(&format!("mut:{}", m));
    }
    if reweight {
        out.class("re-weighted");
    }
    out.nontrivial = (!muts.is_empty() || reweight) && !dont_care;
    let _ = byte_mutated;
    out.fingerprint = fnv(format!("{}|{:?}|{:?}|{:?}|{}|{}", name, muts, stakes, eval.stakes, round, key_seed).as_bytes()) ^ crate::tape::fnv_case(case);
    let mut sample = hist;
    if let Some(o) = sample.as_object_mut() {
        o.remove("message");
    }
    out.sample = sample;
    out
}
