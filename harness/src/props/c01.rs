//! C01 — agreement: real honest nodes plus up to f Byzantine authorities played by a reactive
//! adversary that reads all traffic, holds the Byzantine keys, and follows a tape-driven grammar of
//! attacks (equivocation, double votes, withheld / selectively revealed certificates in carrier
//! blocks, stale timeouts, late proposals, bogus certificates, replays) over a network with delays
//! and partitions.
use crate::cluster::{self, commits_by_node, NetCtl, SharedCtl};
use crate::refvalid;
use crate::rig::{Conns, NodeParams};
use crate::runner::{Ctx, Outcome, Part, PropDef};
use crate::sim::{self, ms, Ev};
use crate::tape::{cfg_range, fnv, Case, Tape};
use crate::world::{addr, node_of_port, port_kind, sha512_32, PortKind, World, CONSENSUS_PORT, MEMPOOL_PORT};
use bytes::Bytes;
use consensus::{Block, ConsensusMessage, QC, TC};
use crypto::{Digest, Hash as _, Signature};
use futures::{SinkExt, StreamExt};
use mempool::MempoolMessage;
use network::simnet::{self, FrameDecision, TcpListener};
use serde_json::{json, Value};
use std::cell::RefCell;
use std::collections::{BTreeMap, BTreeSet, HashMap, HashSet, VecDeque};
use std::rc::Rc;
use tokio_util::codec::{Framed, LengthDelimitedCodec};

const CFG_LEN: usize = 8;

pub fn def() -> PropDef {
    PropDef {
        id: "C01",
        level: "exploration",
        rule: "proptest cfg (n = 4..7, equal or skewed stakes, Byzantine set of stake <= f chosen adjacent in the leader rotation or at random, per-link keyed delays, timeout 300 ms, seeds) + tape -> honest authorities are real nodes; the Byzantine ones are played by one reactive adversary that sees every frame on the wire (a pool of all blocks, votes, timeouts, certificates), holds the Byzantine keys and at every tick chooses among: propose as leader (honest / 2..3 equivocating variants delivered to split subsets now and to the rest later / on an older certified block / late, after the victims timed out), cast Byzantine votes for every variant (double votes) to the next leader, assemble any QC the pool allows and reveal it to chosen nodes inside carrier blocks of any round a Byzantine authority leads, send timeouts with stale (genesis) or fresh high QCs to all or some, carrier blocks with bogus certificates (below quorum, repeated signer, signatures of another round), proposals from a non-leader, replay of captured frames, wrong or no answers to sync requests; the network partitions honest nodes into two groups for tape-chosen intervals. Oracle: the union over honest nodes of committed blocks lies on one chain (sorted by round, each is an ancestor of the next; parent links from every Propose frame seen). Non-trivial: the adversary produced >= 1 equivocation or withheld / selectively revealed certificate, >= 1 TC was formed and >= 2 honest nodes committed >= 2 blocks; distinct by (committee, Byzantine set, attack sequence) hash.",
        assumptions: &[
            "generated search cannot show the absence of attacks; the adversary is a finite grammar of behaviours interleaved with network chaos",
            "the Byzantine authorities hold at most f = floor((N-1)/3) of the stake",
        ],
        parts: vec![Part { name: "byzantine", cfg_len: CFG_LEN, tape_max: 400, quick: 800, thorough: 40_000, max_shrink_iters: 80, run }],
    }
}

#[derive(Default)]
struct Pool {
    blocks: HashMap<Digest, Block>,
    /// votes seen or made: (block digest, round) -> authority index -> signature
    votes: HashMap<(Digest, u64), BTreeMap<usize, Signature>>,
    qcs: Vec<QC>,
    timeouts: HashMap<u64, BTreeMap<usize, (Signature, u64)>>,
    tcs: Vec<TC>,
    max_round: u64,
    sync_requests: Vec<(Digest, usize, usize)>, // (digest, requester idx, byzantine target idx)
    captured: Vec<(u32, Vec<u8>)>,
}

struct Adv<'a, 'b> {
    t: &'a mut Tape<'b>,
    w: &'a World,
    byz: Vec<usize>,
    honest: Vec<usize>,
    pool: Pool,
    conns: Conns,
    evil: Vec<Digest>,
    proposed: HashSet<(usize, u64)>,
    notes: Vec<Value>,
    stats: BTreeMap<String, u64>,
    ctl: SharedCtl,
    served: usize,
    partition_until: u64,
    tap: Rc<RefCell<VecDeque<(u32, u32, Vec<u8>)>>>,
}

impl<'a, 'b> Adv<'a, 'b> {
    async fn poll(&mut self, ms_: u64) {
        tokio::time::sleep(ms(ms_)).await;
        let tap = self.tap.clone();
        self.absorb(&tap);
    }

    /// Highest round for which an honest authority has voted or timed out (what the pool has seen).
    fn honest_round(&self) -> u64 {
        self.pool.max_round
    }

    /// Wait until the honest nodes have voted in round `r - 1` (their votes for a block of that round
    /// are in the pool) or `max_ms` elapsed; returns the certified block of round r-1 if any.
    async fn wait_for_votes(&mut self, round: u64, max_ms: u64) -> Option<(Digest, QC)> {
        let mut waited = 0;
        loop {
            let cands: Vec<Digest> = self.pool.blocks.iter().filter(|(_, b)| b.round == round).map(|(d, _)| d.clone()).collect();
            for d in cands {
                if let Some(qc) = self.assemble_qc(&d, round) {
                    // prefer to wait a little so that most honest votes are in
                    let honest_votes = self.pool.votes.get(&(d.clone(), round)).map_or(0, |m| m.keys().filter(|i| self.honest.contains(i)).count());
                    if honest_votes * 2 >= self.honest.len() || waited >= max_ms {
                        return Some((d, qc));
                    }
                }
            }
            if waited >= max_ms {
                return None;
            }
            self.poll(3).await;
            waited += 3;
        }
    }

    /// T1 "double chain": two Byzantine leaders in consecutive rounds r, r+1 build A_r <- A_{r+1} and
    /// B_r <- B_{r+1}, show them to split (or overlapping) honest sets, vote for everything, and reveal
    /// QC(A_{r+1}) to one set and QC(B_{r+1}) to the other inside carrier blocks.
    async fn double_chain(&mut self) {
        let cur = self.honest_round().max(1);
        let mut target = None;
        for r in cur + 1..cur + 10 {
            if self.byz.contains(&self.w.leader(r)) && self.byz.contains(&self.w.leader(r + 1)) {
                target = Some(r);
                break;
            }
        }
        let r = match target {
            Some(r) => r,
            None => return,
        };
        let (b1, b2) = (self.w.leader(r), self.w.leader(r + 1));
        self.note(json!({"adv": "T1-double-chain", "round": r, "leaders": [b1, b2]}));
        self.stat("template-double-chain");
        // the votes of round r-1 come to us (leader of r): wait for them
        let mut waited = 0;
        while self.honest_round() + 1 < r && waited < 4_000 {
            self.poll(5).await;
            waited += 5;
        }
        let (parent, qc) = match self.wait_for_votes(r - 1, 400).await {
            Some(x) => x,
            None => return,
        };
        let _ = parent;
        let overlap = self.t.chance(1, 2);
        let all = self.honest.clone();
        let mut s_a = Vec::new();
        let mut s_b = Vec::new();
        for h in &all {
            if self.t.chance(1, 2) {
                s_a.push(*h);
            } else {
                s_b.push(*h);
            }
        }
        let (e1, e2) = (self.evil.get(0).cloned(), self.evil.get(1).cloned());
        let a_r = self.w.block(b1, r, qc.clone(), None, e1.clone().into_iter().collect());
        let b_r = self.w.block(b1, r, qc.clone(), None, e2.clone().into_iter().collect());
        self.stat("equivocation");
        self.send_block(b1, &a_r, &s_a.clone()).await;
        self.send_block(b1, &b_r, &s_b.clone()).await;
        if overlap {
            self.poll(1).await;
            self.send_block(b1, &b_r, &s_a.clone()).await;
            self.send_block(b1, &a_r, &s_b.clone()).await;
        }
        // votes for round r go to b2 (us): collect
        self.poll(2 * 30).await;
        let hopeful = self.t.chance(1, 2);
        let qa = if hopeful { self.assemble_qc_hopeful(&a_r.digest(), r) } else { self.assemble_qc(&a_r.digest(), r) };
        let qb = if hopeful { self.assemble_qc_hopeful(&b_r.digest(), r) } else { self.assemble_qc(&b_r.digest(), r) };
        let a_r1 = qa.map(|q| self.w.block(b2, r + 1, q, None, e1.clone().into_iter().collect()));
        let b_r1 = qb.map(|q| self.w.block(b2, r + 1, q, None, e2.clone().into_iter().collect()));
        if let Some(x) = &a_r1 {
            self.send_block(b2, x, &s_a.clone()).await;
        }
        if let Some(x) = &b_r1 {
            self.send_block(b2, x, &s_b.clone()).await;
        }
        if overlap {
            self.poll(1).await;
            if let Some(x) = &b_r1 {
                self.send_block(b2, x, &s_a.clone()).await;
            }
            if let Some(x) = &a_r1 {
                self.send_block(b2, x, &s_b.clone()).await;
            }
        }
        if a_r1.is_some() && b_r1.is_some() {
            self.stat("two-certified-blocks-in-one-round");
        }
        self.poll(2 * 30).await;
        // reveal: carrier blocks in the next round led by a Byzantine authority
        let mut rr = r + 2;
        while !self.byz.contains(&self.w.leader(rr)) {
            rr += 1;
        }
        let bc = self.w.leader(rr);
        if let Some(x) = &a_r1 {
            let q = if hopeful { self.assemble_qc_hopeful(&x.digest(), r + 1) } else { self.assemble_qc(&x.digest(), r + 1) };
            if let Some(q) = q {
                let c = self.w.block(bc, rr, q, None, Vec::new());
                self.send_block(bc, &c, &s_a.clone()).await;
                self.stat("selective-reveal");
            }
        }
        if let Some(x) = &b_r1 {
            let q = if hopeful { self.assemble_qc_hopeful(&x.digest(), r + 1) } else { self.assemble_qc(&x.digest(), r + 1) };
            if let Some(q) = q {
                let c = self.w.block(bc, rr, q, None, e1.into_iter().collect());
                self.send_block(bc, &c, &s_b.clone()).await;
                self.stat("selective-reveal");
            }
        }
    }

    /// T6 "victim fork": two Byzantine leaders in consecutive rounds r, r+1. Both equivocating
    /// siblings A_r, B_r are shown to EVERY honest node (in opposite orders), A_{r+1} to one group and
    /// B_{r+1} to the group holding the honest leader of r+2; QC(A_{r+1}) is revealed to a single
    /// victim, which commits A_r and is then cut off from the other honest nodes. The Byzantine
    /// authorities help the rest to a TC for r+1 with an old high QC, so that the honest leader of r+2
    /// (whose high QC is QC(B_r)) extends B_r and the rest commits on that branch. On correct code at
    /// most one of A_r, B_r can be certified (vote-once rule), so the script is harmless; it forks as
    /// soon as an honest node can be brought to vote for two blocks of one round.
    async fn victim_fork(&mut self) {
        let cur = self.honest_round().max(1);
        let mut target = None;
        for r in cur + 1..cur + 10 {
            if self.byz.contains(&self.w.leader(r)) && self.byz.contains(&self.w.leader(r + 1)) && self.honest.contains(&self.w.leader(r + 2)) {
                target = Some(r);
                break;
            }
        }
        let r = match target {
            Some(r) => r,
            None => return,
        };
        if self.honest.len() < 3 {
            return;
        }
        let (b1, b2, l2) = (self.w.leader(r), self.w.leader(r + 1), self.w.leader(r + 2));
        self.stat("template-victim-fork");
        let mut waited = 0;
        while self.honest_round() + 1 < r && waited < 4_000 {
            self.poll(5).await;
            waited += 5;
        }
        let (_, qc) = match self.wait_for_votes(r - 1, 400).await {
            Some(x) => x,
            None => return,
        };
        // groups: s_b holds the honest leader of r+2 (and sometimes one more), s_a the rest with the victim
        let others: Vec<usize> = self.honest.iter().copied().filter(|h| *h != l2).collect();
        let mut s_b = vec![l2];
        let mut s_a = others.clone();
        if s_a.len() >= 3 && self.t.chance(1, 2) {
            let k = self.t.below(s_a.len());
            s_b.push(s_a.remove(k));
        }
        let victim = *self.t.pick(&s_a.clone());
        self.note(json!({"adv": "T6-victim-fork", "round": r, "leaders": [b1, b2], "victim": victim, "group_a": s_a, "group_b": s_b}));
        let (e1, e2) = (self.evil.get(0).cloned(), self.evil.get(1).cloned());
        let a_r = self.w.block(b1, r, qc.clone(), None, e1.clone().into_iter().collect());
        let b_r = self.w.block(b1, r, qc.clone(), None, e2.clone().into_iter().collect());
        self.stat("equivocation");
        self.send_block(b1, &a_r, &s_a.clone()).await;
        self.send_block(b1, &b_r, &s_b.clone()).await;
        self.poll(1).await;
        self.send_block(b1, &b_r, &s_a.clone()).await;
        self.send_block(b1, &a_r, &s_b.clone()).await;
        self.stat("cross-delivery");
        self.poll(2 * 30).await;
        let qa = self.assemble_qc(&a_r.digest(), r);
        let qb = self.assemble_qc(&b_r.digest(), r);
        if qa.is_some() && qb.is_some() {
            self.stat("two-certified-blocks-in-one-round");
        }
        let a_r1 = qa.map(|q| self.w.block(b2, r + 1, q, None, e1.clone().into_iter().collect()));
        let b_r1 = qb.map(|q| self.w.block(b2, r + 1, q, None, e2.clone().into_iter().collect()));
        if let Some(x) = &b_r1 {
            self.send_block(b2, x, &s_b.clone()).await;
        }
        if let Some(x) = &a_r1 {
            self.send_block(b2, x, &s_a.clone()).await;
        }
        self.poll(2 * 30).await;
        // reveal QC(A_{r+1}) to the victim alone, in a carrier block of the next Byzantine-led round
        let mut rr = r + 2;
        while !self.byz.contains(&self.w.leader(rr)) {
            rr += 1;
        }
        let bc = self.w.leader(rr);
        if let Some(x) = &a_r1 {
            if let Some(q) = self.assemble_qc(&x.digest(), r + 1) {
                let c = self.w.block(bc, rr, q, None, Vec::new());
                self.send_block(bc, &c, &[victim]).await;
                self.stat("selective-reveal");
            }
        }
        self.poll(10).await;
        // cut the victim off from the other honest nodes
        {
            let now = sim::now_us();
            let len = self.t.range(1_500, 2_500);
            let mut c = self.ctl.borrow_mut();
            c.drop_links.clear();
            for h in self.honest.iter().filter(|h| **h != victim) {
                for kind in [PortKind::Consensus, PortKind::Mempool] {
                    c.drop_links.insert((victim as u32 + 1, *h as u32 + 1, kind));
                    c.drop_links.insert((*h as u32 + 1, victim as u32 + 1, kind));
                }
            }
            drop(c);
            self.partition_until = now + len * 1000;
            self.stat("partition");
        }
        // Byzantine timeouts for r+1 with the old high QC help the rest over the round
        let rest: Vec<usize> = self.honest.iter().copied().filter(|h| *h != victim).collect();
        for b in self.byz.clone() {
            let t = self.w.timeout(b, r + 1, qc.clone());
            self.pool.timeouts.entry(r + 1).or_default().insert(b, (t.signature.clone(), t.high_qc.round));
            for h in &rest {
                let _ = self.conns.consensus(b, *h, &ConsensusMessage::Timeout(t.clone())).await;
            }
        }
        self.stat("byzantine-timeout");
        // stay quiet while the rest moves on (the Byzantine-led rounds that follow just time out)
        let quiet = self.t.range(900, 1_800);
        let mut waited = 0;
        while waited < quiet {
            self.poll(20).await;
            self.answer_sync().await;
            waited += 20;
        }
    }

    /// T2 "late proposal after timeout": the Byzantine leader of r+1 gathers QC(B_r), withholds its
    /// proposal until the honest nodes timed out of r+1, then delivers it to victims only; later it
    /// reveals QC(B_{r+1}) to one victim inside a carrier block.
    async fn late_after_timeout(&mut self) {
        let cur = self.honest_round().max(1);
        let mut target = None;
        for r1 in cur + 1..cur + 10 {
            if self.byz.contains(&self.w.leader(r1)) && !self.byz.contains(&self.w.leader(r1 - 1)) {
                target = Some(r1);
                break;
            }
        }
        let r1 = match target {
            Some(r) => r,
            None => return,
        };
        let b = self.w.leader(r1);
        self.note(json!({"adv": "T2-late-proposal-after-timeout", "round": r1, "leader": b}));
        self.stat("template-late-after-timeout");
        let mut waited = 0;
        while self.honest_round() + 1 < r1 && waited < 4_000 {
            self.poll(5).await;
            waited += 5;
        }
        let (_, qc) = match self.wait_for_votes(r1 - 1, 400).await {
            Some(x) => x,
            None => return,
        };
        // withhold until the first honest nodes have timed out of r1 (their Timeout(r1) frames are on
        // the wire), then deliver at once to exactly those nodes - before a TC moves them on
        let mut waited = 0;
        let victims: Vec<usize>;
        loop {
            let timed_out: Vec<usize> = self.pool.timeouts.get(&r1).map_or(Vec::new(), |m| m.keys().copied().filter(|i| self.honest.contains(i)).collect());
            if !timed_out.is_empty() || waited > 1_500 {
                victims = if timed_out.is_empty() { self.subset() } else { timed_out };
                break;
            }
            self.poll(1).await;
            waited += 1;
        }
        self.stat("late-proposal");
        let blk = self.w.block(b, r1, qc, None, Vec::new());
        self.send_block(b, &blk, &victims).await;
        // the others get it a little later
        self.poll(3).await;
        let rest: Vec<usize> = self.honest.iter().copied().filter(|h| !victims.contains(h)).collect();
        if self.t.chance(1, 2) {
            self.send_block(b, &blk, &rest).await;
        }
        // votes for r1 go to leader(r1+1); the tap sees them
        self.poll(60).await;
        if let Some(q) = self.assemble_qc_hopeful(&blk.digest(), r1) {
            let mut rr = r1 + 1;
            while !self.byz.contains(&self.w.leader(rr)) {
                rr += 1;
            }
            let bc = self.w.leader(rr);
            // wait until the rest of the system has moved on and committed something else
            let d = self.t.range(100, 900);
            self.poll(d).await;
            let c = self.w.block(bc, rr, q, None, Vec::new());
            let one = self.subset();
            self.send_block(bc, &c, &one).await;
            self.stat("selective-reveal");
        }
    }

    /// T4' "fabricated chain": a block on a stale certified parent, a child of the next round and a
    /// carrier, each carrying a certificate signed by the Byzantine authorities only.
    async fn fabricated_chain(&mut self) {
        let cur = self.honest_round().max(1);
        let mut target = None;
        for r in cur.saturating_sub(1).max(1)..cur + 8 {
            if self.byz.contains(&self.w.leader(r)) && self.byz.contains(&self.w.leader(r + 1)) {
                target = Some(r);
                break;
            }
        }
        let r = match target {
            Some(r) => r,
            None => return,
        };
        let (b1, b2) = (self.w.leader(r), self.w.leader(r + 1));
        // a stale certified parent (several rounds back), or genesis
        let certified = self.certified();
        let parent = certified.iter().filter(|(_, pr)| *pr + 3 < r).next().cloned();
        let qc = match &parent {
            Some((d, pr)) => self.assemble_qc(d, *pr).unwrap_or_else(QC::genesis),
            None => QC::genesis(),
        };
        // certificates signed by the Byzantine authorities only: below the quorum, or padded up to
        // the quorum weight by repeating them
        let mut byz = self.byz.clone();
        // 0: Byzantine signers only (below the quorum); 1: padded up to the quorum weight by repeating
        // them; 2 / 3: certificates without any vote, claiming round 0 (a "genesis" certificate naming
        // a real block) or the block's round
        let cert_mode = self.t.weighted(&[3, 3, 1, 1]);
        if cert_mode == 1 {
            let mut k = 0;
            while self.w.stake_of(&self.byz) * ((byz.len() / self.byz.len()) as u64) < self.w.quorum() + 1 && k < 64 {
                byz.extend(self.byz.clone());
                k += 1;
            }
            self.stat("padded-certificate");
        }
        if cert_mode >= 2 {
            self.stat("voteless-certificate");
        }
        let fake = |w: &World, b: &Block, byz: &[usize]| -> QC {
            match cert_mode {
                2 => QC { hash: b.digest(), round: 0, votes: Vec::new() },
                3 => QC { hash: b.digest(), round: b.round, votes: Vec::new() },
                _ => w.qc(b, byz),
            }
        };
        let x0 = self.w.block(b1, r, qc, None, Vec::new());
        let fake0 = fake(&self.w, &x0, &byz);
        let x1 = self.w.block(b2, r + 1, fake0, None, Vec::new());
        let fake1 = fake(&self.w, &x1, &byz);
        let mut rr = r + 2;
        while !self.byz.contains(&self.w.leader(rr)) {
            rr += 1;
        }
        let x2 = self.w.block(self.w.leader(rr), rr, fake1, None, Vec::new());
        let victims = self.subset();
        self.note(json!({"adv": "T4-fabricated-chain", "rounds": [r, r + 1, rr], "to": victims}));
        self.stat("template-fabricated-chain");
        self.stat("bogus-certificate");
        self.send_block(b1, &x0, &victims.clone()).await;
        self.poll(20).await;
        self.send_block(b2, &x1, &victims.clone()).await;
        self.poll(20).await;
        let c = self.w.leader(rr);
        self.send_block(c, &x2, &victims).await;
    }

    fn stat(&mut self, k: &str) {
        *self.stats.entry(k.to_string()).or_insert(0) += 1;
    }

    fn note(&mut self, v: Value) {
        if self.notes.len() < 300 {
            self.notes.push(v);
        }
    }

    fn absorb(&mut self, tap: &Rc<RefCell<VecDeque<(u32, u32, Vec<u8>)>>>) {
        let frames: Vec<(u32, u32, Vec<u8>)> = tap.borrow_mut().drain(..).collect();
        for (writer, dst, bytes) in frames {
            let m = match bincode::deserialize::<ConsensusMessage>(&bytes) {
                Ok(m) => m,
                Err(_) => continue,
            };
            if self.pool.captured.len() < 400 && !self.byz.contains(&(writer as usize - 1)) {
                self.pool.captured.push((dst, bytes.clone()));
            }
            match m {
                ConsensusMessage::Propose(b) => {
                    self.pool.max_round = self.pool.max_round.max(b.round);
                    self.see_qc(&b.qc);
                    if let Some(tc) = &b.tc {
                        self.see_tc(tc);
                    }
                    self.pool.blocks.entry(b.digest()).or_insert(b);
                }
                ConsensusMessage::Vote(v) => {
                    if let Some(i) = self.w.index_of(&v.author) {
                        if refvalid::ref_vote(self.w, &v).is_ok() {
                            self.pool.votes.entry((v.hash.clone(), v.round)).or_default().insert(i, v.signature.clone());
                        }
                    }
                    self.pool.max_round = self.pool.max_round.max(v.round);
                }
                ConsensusMessage::Timeout(x) => {
                    self.see_qc(&x.high_qc);
                    if let Some(i) = self.w.index_of(&x.author) {
                        self.pool.timeouts.entry(x.round).or_default().insert(i, (x.signature.clone(), x.high_qc.round));
                    }
                    self.pool.max_round = self.pool.max_round.max(x.round);
                }
                ConsensusMessage::TC(tc) => self.see_tc(&tc),
                ConsensusMessage::SyncRequest(d, k) => {
                    let target = dst as usize - 1;
                    if self.byz.contains(&target) {
                        if let Some(r) = self.w.index_of(&k) {
                            self.pool.sync_requests.push((d, r, target));
                        }
                    }
                }
            }
        }
    }

    fn see_qc(&mut self, qc: &QC) {
        if refvalid::is_genesis_qc(qc) || refvalid::ref_qc(self.w, qc).is_err() {
            return;
        }
        let e = self.pool.votes.entry((qc.hash.clone(), qc.round)).or_default();
        for (k, s) in &qc.votes {
            if let Some(i) = self.w.index_of(k) {
                e.insert(i, s.clone());
            }
        }
        if !self.pool.qcs.iter().any(|q| q.hash == qc.hash && q.round == qc.round) {
            self.pool.qcs.push(qc.clone());
        }
    }

    fn see_tc(&mut self, tc: &TC) {
        if refvalid::ref_tc(self.w, tc).is_err() {
            return;
        }
        if !self.pool.tcs.iter().any(|x| x.round == tc.round) {
            self.pool.tcs.push(tc.clone());
        }
    }

    /// A QC for the block if the pool's honest votes plus fresh Byzantine votes reach the quorum.
    fn assemble_qc(&mut self, d: &Digest, round: u64) -> Option<QC> {
        let mut signers: BTreeMap<usize, Signature> = self.pool.votes.get(&(d.clone(), round)).cloned().unwrap_or_default();
        for b in &self.byz {
            if !signers.contains_key(b) {
                signers.insert(*b, self.w.vote_for(*b, d.clone(), round).signature);
            }
        }
        let idx: Vec<usize> = signers.keys().copied().collect();
        if self.w.stake_of(&idx) < self.w.quorum() {
            return None;
        }
        Some(QC { hash: d.clone(), round, votes: signers.into_iter().map(|(i, s)| (self.w.pk(i), s)).collect() })
    }

    /// What an attacker probing for a weak threshold would try: a certificate from whatever votes
    /// exist (honest votes seen plus all Byzantine votes) when the quorum is missed by little.
    fn assemble_qc_hopeful(&mut self, d: &Digest, round: u64) -> Option<QC> {
        if let Some(q) = self.assemble_qc(d, round) {
            return Some(q);
        }
        let mut signers: BTreeMap<usize, Signature> = self.pool.votes.get(&(d.clone(), round)).cloned().unwrap_or_default();
        for b in &self.byz {
            signers.entry(*b).or_insert_with(|| self.w.vote_for(*b, d.clone(), round).signature);
        }
        let idx: Vec<usize> = signers.keys().copied().collect();
        // at least one honest vote and not absurdly far from the quorum
        if idx.iter().any(|i| self.honest.contains(i)) && self.w.stake_of(&idx) + 1 >= self.w.quorum() {
            self.stat("hopeful-sub-quorum-certificate");
            return Some(QC { hash: d.clone(), round, votes: signers.into_iter().map(|(i, s)| (self.w.pk(i), s)).collect() });
        }
        None
    }

    /// A TC for the round if the pool's timeouts plus fresh Byzantine ones (reporting `hq`) reach the quorum.
    fn assemble_tc(&mut self, round: u64, byz_hq: u64) -> Option<TC> {
        if let Some(tc) = self.pool.tcs.iter().find(|t| t.round == round) {
            return Some(tc.clone());
        }
        let mut entries: BTreeMap<usize, (Signature, u64)> = self.pool.timeouts.get(&round).cloned().unwrap_or_default();
        for b in &self.byz {
            if !entries.contains_key(b) {
                let hq = if byz_hq == 0 { QC::genesis() } else { QC { hash: Digest::default(), round: byz_hq, votes: Vec::new() } };
                let t = self.w.timeout(*b, round, hq);
                entries.insert(*b, (t.signature, byz_hq));
            }
        }
        let idx: Vec<usize> = entries.keys().copied().collect();
        if self.w.stake_of(&idx) < self.w.quorum() {
            return None;
        }
        Some(TC { round, votes: entries.into_iter().map(|(i, (s, hr))| (self.w.pk(i), s, hr)).collect() })
    }

    fn subset(&mut self) -> Vec<usize> {
        let mut s: Vec<usize> = Vec::new();
        for h in self.honest.clone() {
            if self.t.chance(1, 2) {
                s.push(h);
            }
        }
        if s.is_empty() {
            let h = *self.t.pick(&self.honest.clone());
            s.push(h);
        }
        s
    }

    async fn send_block(&mut self, from: usize, b: &Block, to: &[usize]) {
        self.pool.blocks.entry(b.digest()).or_insert_with(|| b.clone());
        let m = ConsensusMessage::Propose(b.clone());
        for h in to {
            let _ = self.conns.consensus(from, *h, &m).await;
        }
    }

    /// Highest certified blocks known (QC assemblable), newest first.
    fn certified(&mut self) -> Vec<(Digest, u64)> {
        let mut cands: Vec<(Digest, u64)> = self.pool.blocks.iter().map(|(d, b)| (d.clone(), b.round)).collect();
        cands.sort_by(|a, b| b.1.cmp(&a.1).then(a.0 .0.cmp(&b.0 .0)));
        let mut out = Vec::new();
        for (d, r) in cands.into_iter().take(24) {
            if self.assemble_qc(&d, r).is_some() {
                out.push((d, r));
            }
            if out.len() >= 6 {
                break;
            }
        }
        out
    }

    fn byz_leader_round(&mut self, from: u64, span: u64) -> Option<(usize, u64)> {
        let mut opts = Vec::new();
        for r in from..=from + span {
            let l = self.w.leader(r);
            if self.byz.contains(&l) {
                opts.push((l, r));
            }
        }
        if opts.is_empty() {
            None
        } else {
            Some(*self.t.pick(&opts))
        }
    }

    /// Propose as a Byzantine leader: 1..3 variants, split delivery, optional cross delivery later.
    async fn propose(&mut self, late: bool) {
        let cur = self.pool.max_round.max(1);
        let (b, r) = match self.byz_leader_round(cur.saturating_sub(1).max(1), 3) {
            Some(x) => x,
            None => return,
        };
        let certified = self.certified();
        // justification: QC of round r-1, or an older QC plus a TC for r-1, or nothing proper
        let mut variants: Vec<Block> = Vec::new();
        let nvar = 1 + self.t.weighted(&[3, 4, 1]);
        for v in 0..nvar {
            let parent = if certified.is_empty() {
                None
            } else if self.t.chance(3, 4) {
                certified.iter().find(|(_, pr)| *pr < r).cloned()
            } else {
                let k = self.t.below(certified.len());
                Some(certified[k].clone()).filter(|(_, pr)| *pr < r)
            };
            let (qc, parent_round) = match &parent {
                Some((d, pr)) => (self.assemble_qc(d, *pr).unwrap_or_else(QC::genesis), *pr),
                None => (QC::genesis(), 0),
            };
            let parent_round = if refvalid::is_genesis_qc(&qc) { 0 } else { parent_round };
            let tc = if parent_round + 1 == r {
                None
            } else if self.t.chance(1, 3) {
                // a forged TC for r-1: every authority "reports" a high QC no higher than the parent,
                // the Byzantine entries are properly signed, the honest ones carry junk signatures
                let b0 = self.byz[0];
                let votes = (0..self.w.n)
                    .map(|i| {
                        let hq = QC { hash: Digest::default(), round: 0, votes: Vec::new() };
                        let signer = if self.byz.contains(&i) { i } else { b0 };
                        (self.w.pk(i), self.w.timeout(signer, r - 1, hq).signature, 0u64)
                    })
                    .collect();
                self.stat("forged-tc");
                Some(TC { round: r - 1, votes })
            } else {
                // a TC for r-1: real if the pool has one, else assembled with stale Byzantine entries
                let hq = if self.t.chance(1, 2) { 0 } else { parent_round };
                self.assemble_tc(r - 1, hq)
            };
            let payload = if v == 0 || self.evil.is_empty() { Vec::new() } else { vec![self.evil[(v - 1) % self.evil.len()].clone()] };
            variants.push(self.w.block(b, r, qc, tc, payload));
        }
        if variants.len() > 1 {
            self.stat("equivocation");
        }
        if self.proposed.contains(&(b, r)) {
            self.stat("equivocation");
        }
        self.proposed.insert((b, r));
        if late {
            // wait until the victims have timed out of this round
            tokio::time::sleep(ms(self.t.range(250, 700))).await;
            self.stat("late-proposal");
        }
        let all = self.honest.clone();
        let mut first_sets = Vec::new();
        for (vi, blk) in variants.iter().enumerate() {
            let set = if variants.len() == 1 && self.t.chance(2, 3) { all.clone() } else { self.subset() };
            self.send_block(b, blk, &set).await;
            first_sets.push(set);
            let _ = vi;
        }
        self.note(json!({"adv": "propose", "by": b, "round": r, "variants": variants.len(), "late": late, "sets": first_sets}));
        if self.t.chance(1, 2) {
            tokio::time::sleep(ms(self.t.range(1, 120))).await;
            for (vi, blk) in variants.iter().enumerate() {
                let rest: Vec<usize> = all.iter().copied().filter(|h| !first_sets[vi].contains(h)).collect();
                self.send_block(b, blk, &rest).await;
            }
            self.stat("cross-delivery");
        }
    }

    /// Byzantine votes for blocks of recent rounds go to their next leaders (all variants: double votes).
    async fn vote(&mut self) {
        let cur = self.pool.max_round;
        let recent: Vec<Block> = self.pool.blocks.values().filter(|b| b.round + 2 >= cur).cloned().collect();
        let mut per_round: HashMap<u64, usize> = HashMap::new();
        for blk in recent {
            let next = self.w.leader(blk.round + 1);
            if self.byz.contains(&next) {
                continue; // the adversary has these votes anyway
            }
            *per_round.entry(blk.round).or_insert(0) += 1;
            for b in self.byz.clone() {
                let v = self.w.vote(b, &blk);
                self.pool.votes.entry((v.hash.clone(), v.round)).or_default().insert(b, v.signature.clone());
                let _ = self.conns.consensus(b, next, &ConsensusMessage::Vote(v)).await;
            }
        }
        if per_round.values().any(|c| *c > 1) {
            self.stat("double-vote");
        }
    }

    /// Reveal a certificate to chosen nodes inside a block of a round some Byzantine authority leads.
    async fn carrier(&mut self, bogus: bool) {
        let certified = self.certified();
        if certified.is_empty() {
            return;
        }
        let k = self.t.below(certified.len());
        let (d, pr) = certified[k].clone();
        let (b, r) = match self.byz_leader_round(pr + 1, 6) {
            Some(x) => x,
            None => return,
        };
        let mut qc = match self.assemble_qc(&d, pr) {
            Some(q) => q,
            None => return,
        };
        if bogus {
            match self.t.below(3) {
                0 => {
                    // below the quorum
                    while self.w.stake_of(&qc.votes.iter().filter_map(|(k, _)| self.w.index_of(k)).collect::<Vec<_>>()) >= self.w.quorum() && !qc.votes.is_empty() {
                        qc.votes.pop();
                    }
                }
                1 => {
                    // padded with a repeated Byzantine signer
                    let me = self.w.pk(b);
                    let sig = self.w.vote_for(b, d.clone(), pr).signature;
                    qc.votes.retain(|(k, _)| *k == me);
                    while qc.votes.len() < self.w.n {
                        qc.votes.push((me, sig.clone()));
                    }
                }
                _ => {
                    // signatures made for another round
                    qc.round += 1;
                }
            }
            self.stat("bogus-certificate");
        }
        let blk = self.w.block(b, r, qc, None, Vec::new());
        let set = self.subset();
        self.note(json!({"adv": if bogus { "bogus-carrier" } else { "carrier" }, "by": b, "round": r, "certifies_round": pr, "to": set}));
        self.send_block(b, &blk, &set).await;
        self.stat("selective-reveal");
    }

    async fn timeouts(&mut self) {
        let cur = self.pool.max_round.max(1);
        let round = cur + self.t.weighted(&[6, 2, 1]) as u64;
        let stale = self.t.chance(1, 2);
        let hq = if stale {
            QC::genesis()
        } else {
            self.certified().first().cloned().and_then(|(d, r)| self.assemble_qc(&d, r)).unwrap_or_else(QC::genesis)
        };
        let set = if self.t.chance(1, 2) { self.honest.clone() } else { self.subset() };
        for b in self.byz.clone() {
            let t = self.w.timeout(b, round, hq.clone());
            self.pool.timeouts.entry(round).or_default().insert(b, (t.signature.clone(), t.high_qc.round));
            for h in &set {
                let _ = self.conns.consensus(b, *h, &ConsensusMessage::Timeout(t.clone())).await;
            }
        }
        if stale {
            self.stat("stale-timeout");
        }
        self.stat("byzantine-timeout");
    }

    async fn wrong_leader(&mut self) {
        let cur = self.pool.max_round.max(1);
        let r = cur + self.t.below(2) as u64;
        let b = *self.t.pick(&self.byz.clone());
        if self.w.leader(r) == b {
            return;
        }
        let parent = self.certified().into_iter().find(|(_, pr)| *pr < r);
        let qc = match parent {
            Some((d, pr)) => self.assemble_qc(&d, pr).unwrap_or_else(QC::genesis),
            None => QC::genesis(),
        };
        let blk = self.w.block(b, r, qc, None, Vec::new());
        let set = self.subset();
        self.send_block(b, &blk, &set).await;
        self.stat("wrong-leader-proposal");
    }

    async fn replay(&mut self) {
        if self.pool.captured.is_empty() {
            return;
        }
        let k = self.t.below(self.pool.captured.len());
        let (_, bytes) = self.pool.captured[k].clone();
        let b = *self.t.pick(&self.byz.clone());
        let h = *self.t.pick(&self.honest.clone());
        let _ = self.conns.send(b as u32 + 1, CONSENSUS_PORT + h as u16, bytes).await;
        self.stat("replay");
    }

    async fn answer_sync(&mut self) {
        let reqs: Vec<(Digest, usize, usize)> = self.pool.sync_requests.iter().skip(self.served).cloned().collect();
        self.served += reqs.len();
        for (d, requester, target) in reqs {
            match self.t.weighted(&[5, 2, 1]) {
                0 => {
                    if let Some(b) = self.pool.blocks.get(&d).cloned() {
                        let _ = self.conns.consensus(target, requester, &ConsensusMessage::Propose(b)).await;
                    }
                }
                1 => self.stat("sync-ignored"),
                _ => {
                    // a different valid block
                    if let Some(b) = self.pool.blocks.values().next().cloned() {
                        let _ = self.conns.consensus(target, requester, &ConsensusMessage::Propose(b)).await;
                    }
                    self.stat("sync-wrong-answer");
                }
            }
        }
    }

    fn partition(&mut self) {
        let now = sim::now_us();
        if now < self.partition_until {
            return;
        }
        let mut g1: Vec<usize> = Vec::new();
        let mut g2: Vec<usize> = Vec::new();
        for h in self.honest.clone() {
            if self.t.chance(1, 2) {
                g1.push(h);
            } else {
                g2.push(h);
            }
        }
        let len = self.t.range(50, 900);
        let mut c = self.ctl.borrow_mut();
        c.drop_links.clear();
        for a in &g1 {
            for b in &g2 {
                for kind in [PortKind::Consensus, PortKind::Mempool] {
                    c.drop_links.insert((*a as u32 + 1, *b as u32 + 1, kind));
                    c.drop_links.insert((*b as u32 + 1, *a as u32 + 1, kind));
                }
            }
        }
        drop(c);
        self.partition_until = now + len * 1000;
        self.note(json!({"adv": "partition", "groups": [g1, g2], "ms": len}));
        self.stat("partition");
    }

    fn maybe_heal(&mut self) {
        if self.partition_until != 0 && sim::now_us() >= self.partition_until {
            self.ctl.borrow_mut().drop_links.clear();
            self.partition_until = 0;
        }
    }
}

async fn byzantine_listener(i: usize) {
    // accept everything, acknowledge proposals and batches so that honest proposers / mempools go on
    for base in [CONSENSUS_PORT, MEMPOOL_PORT] {
        let listener = TcpListener::bind(&addr(base + i as u16)).await.expect("bind byzantine port");
        simnet::set_current_node(i as u32 + 1);
        tokio::spawn(async move {
            loop {
                let (socket, _) = match listener.accept().await {
                    Ok(x) => x,
                    Err(_) => continue,
                };
                tokio::spawn(async move {
                    let mut framed = Framed::new(socket, LengthDelimitedCodec::new());
                    while let Some(Ok(frame)) = framed.next().await {
                        let ack = if base == MEMPOOL_PORT { true } else { matches!(bincode::deserialize::<ConsensusMessage>(&frame), Ok(ConsensusMessage::Propose(_))) };
                        if ack && framed.send(Bytes::from("Ack")).await.is_err() {
                            break;
                        }
                    }
                });
            }
        });
        simnet::set_current_node(0);
    }
}

fn run(case: &Case, _ctx: &Ctx) -> Outcome {
    let n = match cfg_range(&case.cfg, 0, 0, 5) {
        0 | 1 => 4,
        2 => 5,
        3 => 6,
        _ => 7,
    } as usize;
    let skewed = cfg_range(&case.cfg, 1, 0, 3) == 0;
    let stakes: Vec<u32> = if skewed { (0..n).map(|i| 1 + (i as u32 * 5 + 1) % 3).collect() } else { vec![1; n] };
    let w = World::new(&stakes, cfg_range(&case.cfg, 2, 0, 3));
    let total: u64 = stakes.iter().map(|s| *s as u64).sum();
    let f = (total - 1) / 3;
    // Byzantine set: consecutive in the rotation (strongest for 2-chain attacks) or scattered
    let start = cfg_range(&case.cfg, 3, 0, n as u64 - 1) as usize;
    let adjacent = cfg_range(&case.cfg, 6, 0, 2) != 0;
    let mut byz: Vec<usize> = Vec::new();
    let mut acc = 0u64;
    for k in 0..n {
        let cand = if adjacent { w.leader((start + k) as u64) } else { (start + k * 2) % n };
        if byz.contains(&cand) {
            continue;
        }
        if acc + stakes[cand] as u64 <= f {
            acc += stakes[cand] as u64;
            byz.push(cand);
        }
    }
    let honest: Vec<usize> = (0..n).filter(|i| !byz.contains(i)).collect();
    let base_ms = cfg_range(&case.cfg, 4, 3, 15);
    let net_seed = case.cfg.get(5).copied().unwrap_or(0) as u64;
    let rt_seed = case.cfg.get(7).copied().unwrap_or(0) as u64;
    let params = NodeParams { timeout_delay: 300, sync_retry_delay: 500, gc_depth: 50, mempool_sync_retry_delay: 300, sync_retry_nodes: 3, batch_size: 200, max_batch_delay: 50 };
    let dir = sim::scratch_dir("c01");
    let _g = sim::ScratchGuard(dir.clone());
    let tape_data = case.tape.clone();
    let (w2, dir2, params2, byz2, honest2) = (&w, dir.clone(), params.clone(), byz.clone(), honest.clone());
    let (notes, stats) = sim::run_sim(rt_seed ^ 0xc01, || async move {
        let ctl: SharedCtl = Rc::new(RefCell::new(NetCtl::new(net_seed)));
        let tap: Rc<RefCell<VecDeque<(u32, u32, Vec<u8>)>>> = Rc::new(RefCell::new(VecDeque::new()));
        {
            let mut c = ctl.borrow_mut();
            c.base_us = base_ms * 1000;
            c.jitter_us = base_ms * 1000;
            let tap2 = tap.clone();
            c.hook = Some(Box::new(move |info, payload, src, dst| {
                if info.forward && port_kind(info.dst_port) == PortKind::Consensus {
                    tap2.borrow_mut().push_back((src, dst, payload.to_vec()));
                }
                None::<FrameDecision>
            }));
        }
        cluster::install_policy(ctl.clone());
        for b in &byz2 {
            byzantine_listener(*b).await;
        }
        cluster::start_real_nodes(w2, &honest2, &dir2, &params2).await;
        let mut t = Tape::new(&tape_data);
        let mut adv = Adv {
            t: &mut t,
            w: w2,
            byz: byz2.clone(),
            honest: honest2.clone(),
            pool: Pool::default(),
            conns: Conns::default(),
            evil: Vec::new(),
            proposed: HashSet::new(),
            notes: Vec::new(),
            stats: BTreeMap::new(),
            ctl: ctl.clone(),
            served: 0,
            partition_until: 0,
            tap: tap.clone(),
        };
        // batches known to every honest node, so that equivocating variants with different payloads are voteable
        // let the nodes bind their ports first
        tokio::time::sleep(ms(5)).await;
        if !byz2.is_empty() {
            for k in 0..2u8 {
                let bytes = bincode::serialize(&MempoolMessage::Batch(vec![vec![0xEE, k, 1, 2, 3, 4, 5, 6, 7, 8]])).unwrap();
                adv.evil.push(sha512_32(&bytes));
                for h in &honest2 {
                    if adv.conns.mempool(byz2[0], *h, bytes.clone()).await {
                        adv.stat("evil-batch-delivered");
                    }
                }
            }
        }
        let steps = 60 + adv.t.below(60);
        for _ in 0..steps {
            let tick = adv.t.range(2, 40);
            tokio::time::sleep(ms(tick)).await;
            adv.absorb(&tap);
            adv.maybe_heal();
            adv.answer_sync().await;
            if adv.byz.is_empty() {
                if adv.t.chance(1, 10) {
                    adv.partition();
                }
                continue;
            }
            // 0 idle, 1 propose, 2 equivocate-late, 3 vote, 4 carrier, 5 bogus carrier, 6 timeouts, 7 wrong leader,
            // 8 replay, 9 partition, 10 T1 double chain, 11 T2 late after timeout, 12 T4 fabricated chain, 13 T6 victim fork
            match adv.t.weighted(&[4, 8, 2, 8, 5, 1, 3, 1, 1, 2, 2, 2, 1, 2]) {
                0 => {}
                1 => adv.propose(false).await,
                2 => adv.propose(true).await,
                3 => adv.vote().await,
                4 => adv.carrier(false).await,
                5 => adv.carrier(true).await,
                6 => adv.timeouts().await,
                7 => adv.wrong_leader().await,
                8 => adv.replay().await,
                9 => adv.partition(),
                10 => adv.double_chain().await,
                11 => adv.late_after_timeout().await,
                12 => adv.fabricated_chain().await,
                _ => adv.victim_fork().await,
            }
        }
        adv.ctl.borrow_mut().drop_links.clear();
        tokio::time::sleep(ms(1_200)).await;
        (adv.notes, adv.stats)
    });
    let log = sim::take_log();
    let panics = sim::panics();
    let mut out = Outcome::default();
    out.sample = json!({"n": n, "stakes": stakes, "byzantine": byz, "adjacent_in_rotation": adjacent, "base_delay_ms": base_ms, "adversary": notes.iter().take(25).cloned().collect::<Vec<_>>(), "adversary_actions": notes.len(), "stats": stats});
    out.fingerprint = fnv(format!("{:?}|{:?}|{:?}|{}", stakes, byz, stats, net_seed).as_bytes()) ^ crate::tape::fnv_case(case);
    if panics.iter().any(|p| p.node != 0) {
        out.class("skipped:node-panicked");
        return out;
    }
    let commits = commits_by_node(&log);
    let wire = cluster::blocks_on_wire(&log);
    // union of committed blocks of honest nodes
    let mut committed: BTreeMap<Vec<u8>, (Rc<Block>, Vec<u32>)> = BTreeMap::new();
    for (node, v) in &commits {
        for (_, _, b) in v {
            if b.round == 0 {
                continue; // genesis placeholder: C02's business
            }
            committed.entry(b.digest().0.to_vec()).or_insert_with(|| (b.clone(), Vec::new())).1.push(*node);
        }
    }
    let mut blocks: Vec<(Rc<Block>, Vec<u32>)> = committed.values().cloned().collect();
    blocks.sort_by_key(|(b, _)| b.round);
    let is_ancestor = |low: &Block, high: &Block| -> Option<bool> {
        // walk parents from `high` down to the round of `low`
        let target = low.digest();
        let mut cur = high.clone();
        let mut guard = 0;
        loop {
            if cur.digest() == target {
                return Some(true);
            }
            if cur.round <= low.round {
                return Some(false);
            }
            if refvalid::is_genesis_qc(&cur.qc) {
                return Some(false);
            }
            match wire.get(&cur.qc.hash) {
                Some(p) => cur = p.clone(),
                None => return None,
            }
            guard += 1;
            if guard > 100_000 {
                return None;
            }
        }
    };
    let hist = |extra: Value| {
        json!({"n": n, "stakes": stakes, "byzantine": byz, "detail": extra, "adversary": notes, "stats": stats,
            "commits": commits.iter().map(|(k, v)| (k.to_string(), v.iter().map(|(t, _, b)| json!({"t_us": t, "round": b.round, "digest": crate::rig::short(&b.digest()), "parent": crate::rig::short(&b.qc.hash)})).collect::<Vec<_>>())).collect::<BTreeMap<_, _>>()})
    };
    let mut unknown_parent = false;
    for pair in blocks.windows(2) {
        let (lo, hi) = (&pair[0], &pair[1]);
        match is_ancestor(&lo.0, &hi.0) {
            Some(true) => {}
            Some(false) => {
                out.violate(
                    "conflicting-commits",
                    format!("honest nodes {:?} committed a block of round {} and honest nodes {:?} a block of round {} that are not on one chain", lo.1, lo.0.round, hi.1, hi.0.round),
                    hist(json!({"low": crate::rig::short(&lo.0.digest()), "high": crate::rig::short(&hi.0.digest())})),
                );
                break;
            }
            None => unknown_parent = true,
        }
    }
    if unknown_parent {
        out.class("inconclusive:parent-never-seen-on-the-wire");
    }
    let tc_formed = log.iter().any(|e| match &e.ev {
        Ev::Sent { info, bytes, .. } if info.forward && port_kind(info.dst_port) == PortKind::Consensus && honest.contains(&(info.writer_node as usize - 1)) => {
            matches!(bincode::deserialize::<ConsensusMessage>(bytes), Ok(ConsensusMessage::TC(_)))
        }
        _ => false,
    });
    let committing = commits.values().filter(|v| v.len() >= 2).count();
    let attack = stats.contains_key("equivocation") || stats.contains_key("selective-reveal") || stats.contains_key("stale-timeout") || stats.contains_key("late-proposal");
    for k in ["forged-tc", "voteless-certificate", "hopeful-sub-quorum-certificate", "template-double-chain", "template-victim-fork", "template-late-after-timeout", "template-fabricated-chain", "two-certified-blocks-in-one-round", "equivocation", "double-vote", "selective-reveal", "bogus-certificate", "stale-timeout", "late-proposal", "partition", "wrong-leader-proposal", "replay", "cross-delivery"] {
        if stats.contains_key(k) {
            out.class(k);
        }
    }
    if tc_formed {
        out.class("tc-formed-by-honest-node");
    }
    out.class(&format!("n={} byzantine={}", n, byz.len()));
    out.class(&format!("honest-nodes-with>=2-commits={}", committing.min(3)));
    out.nontrivial = attack && tc_formed && committing >= 2;
    let _ = node_of_port;
    out
}
