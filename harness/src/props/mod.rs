pub mod c01;
pub mod c04;
pub mod c09;
pub mod c14;
pub mod c15;
pub mod c16;
pub mod cluster_props;
pub mod hostile;
pub mod mempool_props;
pub mod noninterference;
pub mod c17;
pub mod c18;
pub mod c19;
pub mod c20;
pub mod solo_props;
pub mod universal;

use crate::runner::PropDef;

pub fn all() -> Vec<PropDef> {
    vec![c01::def(), solo_props::c02_def(), solo_props::c03_def(), c04::def(), solo_props::c05_def(), cluster_props::c06_def(), cluster_props::c07_def(), solo_props::c08_def(), c09::def(), solo_props::c10_def(), mempool_props::c11_def(), mempool_props::c12_def(), cluster_props::c13_def(), c14::def(), c15::def(), c16::def(), c17::def(), c18::def(), c19::def(), c20::def()]
}
