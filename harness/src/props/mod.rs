pub mod c04;
pub mod c09;
pub mod c15;
pub mod hostile;
pub mod c17;
pub mod c18;
pub mod c19;
pub mod c20;
pub mod solo_props;

use crate::runner::PropDef;

pub fn all() -> Vec<PropDef> {
    vec![c04::def(), c09::def(), c15::def(), c17::def(), c18::def(), c19::def(), c20::def()]
}
