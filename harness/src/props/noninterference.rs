//! C04 part (b): non-interference of rejected messages (placeholder until wired in).
use crate::runner::{Ctx, Outcome, Part};
use crate::tape::Case;

fn noop(_: &Case, _: &Ctx) -> Outcome {
    Outcome::default()
}

pub fn part() -> Part {
    Part { name: "non-interference", cfg_len: 0, tape_max: 1, quick: 0, thorough: 0, max_shrink_iters: 0, run: noop }
}
