//! C04 part (b): non-interference. One generated script is executed twice against a fresh real node:
//! a baseline run, and a run in which messages that the reference predicate rejects (or proposals
//! by a wrong leader) are injected on a dedicated connection at side-stream-chosen instants. The
//! node's emitted messages, commits and store writes must be identical.
use crate::rig::HEv;
use crate::runner::{Ctx, Outcome, Part};
use crate::solo::{self, render_hist, run_solo, sample_of, Knobs, Profile, SoloRun};
use crate::tape::{fnv, Case};
use serde_json::json;
use crypto::{Digest, Hash as _};
use std::collections::{BTreeMap, HashMap};
use std::convert::TryFrom;

pub fn part() -> Part {
    Part { name: "non-interference", cfg_len: solo::CFG_LEN, tape_max: 200, quick: 10_000, thorough: 250_000, max_shrink_iters: 150, run }
}

/// Canonical identity of a block modulo the order of its payload (the proposer drains a HashSet, so
/// the order of digests inside the node's own proposals differs between any two runs): author,
/// round, sorted payload, canonical identity of the parent.
fn canon(d: &Digest, run: &SoloRun, memo: &mut HashMap<Digest, u64>) -> u64 {
    if *d == Digest::default() {
        return 0;
    }
    if let Some(v) = memo.get(d) {
        return *v;
    }
    let v = match run.blocks.get(d) {
        Some(b) => {
            let parent = canon(&b.qc.hash, run, memo);
            let mut payload: Vec<Vec<u8>> = b.payload.iter().map(|x| x.0.to_vec()).collect();
            payload.sort();
            let mut bytes = b.author.0.to_vec();
            bytes.extend(b.round.to_le_bytes());
            for p in payload {
                bytes.extend(p);
            }
            bytes.extend(parent.to_le_bytes());
            bytes.extend(b.qc.round.to_le_bytes());
            fnv(&bytes) | 1
        }
        None => fnv(&d.0) | 1,
    };
    memo.insert(d.clone(), v);
    v
}

fn signers(qc: &consensus::QC) -> Vec<String> {
    let mut v: Vec<String> = qc.votes.iter().map(|(k, _)| k.encode_base64()).collect();
    v.sort();
    v
}

/// Observable behaviour of the node: per instant, the multiset of what it wrote / committed / stored,
/// in canonical form.
fn behaviour(run: &SoloRun) -> BTreeMap<u64, Vec<String>> {
    use consensus::ConsensusMessage as M;
    let mut memo = HashMap::new();
    let mut m: BTreeMap<u64, Vec<String>> = BTreeMap::new();
    for e in &run.hist {
        let s = match &e.ev {
            HEv::Out { to, msg } => match &**msg {
                M::Propose(b) => format!(
                    "out {} propose r{} {:x} qc(r{} {:x} {:?}) tc {:?}",
                    to,
                    b.round,
                    canon(&b.digest(), run, &mut memo),
                    b.qc.round,
                    canon(&b.qc.hash, run, &mut memo),
                    signers(&b.qc),
                    b.tc.as_ref().map(|t| (t.round, { let mut v: Vec<(String, u64)> = t.votes.iter().map(|(k, _, r)| (k.encode_base64(), *r)).collect(); v.sort(); v }))
                ),
                M::Vote(v) => format!("out {} vote r{} {:x} by {}", to, v.round, canon(&v.hash, run, &mut memo), v.author.encode_base64()),
                M::Timeout(t) => format!("out {} timeout r{} hq(r{} {:x} {:?}) by {}", to, t.round, t.high_qc.round, canon(&t.high_qc.hash, run, &mut memo), signers(&t.high_qc), t.author.encode_base64()),
                M::TC(t) => format!("out {} tc r{} {:?}", to, t.round, { let mut v: Vec<(String, u64)> = t.votes.iter().map(|(k, _, r)| (k.encode_base64(), *r)).collect(); v.sort(); v }),
                M::SyncRequest(d, k) => format!("out {} sync {:x} {}", to, canon(d, run, &mut memo), k.encode_base64()),
            },
            // retried batch requests go to randomly chosen peers (SmallRng::from_entropy): the
            // destination is not part of the comparison
            HEv::MempoolOut { msg, bytes, .. } if matches!(**msg, mempool::MempoolMessage::BatchRequest(..)) => format!("mempool-out batch-request {:016x}", fnv(bytes)),
            HEv::MempoolOut { to, bytes, .. } => format!("mempool-out {} {:016x}", to, fnv(bytes)),
            HEv::Commit(b) => format!("commit {:x}", canon(&b.digest(), run, &mut memo)),
            HEv::StoreWrite(k) => {
                let d = Digest::try_from(&k[..]).ok();
                match d {
                    Some(d) if run.blocks.contains_key(&d) => format!("store block {:x}", canon(&d, run, &mut memo)),
                    _ => format!("store {:016x}", fnv(k)),
                }
            }
            _ => continue,
        };
        m.entry(e.t_us).or_default().push(s);
    }
    for v in m.values_mut() {
        v.sort();
    }
    m
}

/// Two inputs in one instant (or a timer expiry together with an input) make the order in which the
/// node handles them depend on its seeded select! fairness, which an extra message perturbs.
fn ambiguous(run: &SoloRun) -> bool {
    let mut inputs: BTreeMap<u64, u32> = BTreeMap::new();
    let mut timeouts: Vec<u64> = Vec::new();
    let me = run.w.pk(run.sut);
    for e in &run.hist {
        match &e.ev {
            HEv::In { .. } | HEv::InJunk { .. } | HEv::MempoolIn { .. } => *inputs.entry(e.t_us).or_insert(0) += 1,
            HEv::Out { msg, .. } => {
                if let consensus::ConsensusMessage::Timeout(t) = &**msg {
                    if t.author == me {
                        timeouts.push(e.t_us);
                    }
                }
            }
            _ => {}
        }
    }
    inputs.values().any(|c| *c > 1) || timeouts.iter().any(|t| inputs.contains_key(t))
}

fn run(case: &Case, _ctx: &Ctx) -> Outcome {
    let seed = ((case.cfg.get(6).copied().unwrap_or(1) as u64) << 32) | case.cfg.get(7).copied().unwrap_or(1) as u64;
    let base = Knobs { serial: true, inject: 1, inject_seed: seed, max_steps: 25, ..Knobs::default() };
    let inj = Knobs { inject: 2, ..base.clone() };
    let a = run_solo(case, Profile::Voting, &base);
    let mut out = Outcome::default();
    out.sample = sample_of(&a);
    if a.panics.iter().any(|p| p.node == a.sut_id) {
        out.class("skipped:node-panicked");
        return out;
    }
    if a.injected.is_empty() {
        out.class("no-injection-point");
        return out;
    }
    if ambiguous(&a) {
        out.class("discarded:ambiguous-baseline");
        return out;
    }
    let b = run_solo(case, Profile::Voting, &inj);
    if let Some(o) = out.sample.as_object_mut() {
        o.insert("injected".into(), json!(b.injected));
    }
    for n in &b.injected {
        out.class(&format!("injected:{}", n));
    }
    if a.injected != b.injected {
        // the script itself reacted to a difference: the injected run diverged before this point
        out.class("script-diverged");
    }
    let (ba, bb) = (behaviour(&a), behaviour(&b));
    if ba != bb {
        // first differing instant
        let mut first = None;
        for t in ba.keys().chain(bb.keys()) {
            if ba.get(t) != bb.get(t) {
                first = Some(first.map_or(*t, |f: u64| f.min(*t)));
            }
        }
        out.violate(
            "rejected-message-changed-behaviour",
            format!("the node behaves differently with the rejected messages {:?} injected; first difference at t={} us", b.injected, first.unwrap_or(0)),
            json!({"n": a.w.n, "stakes": a.w.stakes, "sut": a.sut, "script": a.steps, "injected": b.injected,
                   "baseline": render_hist(&a, 250), "history": render_hist(&b, 250)}),
        );
    }
    out.nontrivial = true;
    out.fingerprint = fnv(format!("{:?}{:?}", b.injected, a.stats).as_bytes()) ^ crate::tape::fnv_case(case);
    out
}
