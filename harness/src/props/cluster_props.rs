//! Properties decided on the cluster rig: C06 (liveness with crashes), C07 (catch-up), C13 (end to end).
use crate::cluster::{self, blocks_on_wire, commits_by_node, ClusterRun, Crash, LinkMode, NetCtl, SharedCtl};
use crate::refvalid;
use crate::rig::{Conns, NodeParams};
use crate::runner::{Ctx, Outcome, Part, PropDef};
use crate::sim::{self, ms, Ev, Event};
use crate::tape::{cfg_range, fnv, Case, Tape};
use crate::world::{node_of_port, port_kind, sha512_32, PortKind, World};
use consensus::{Block, ConsensusMessage};
use crypto::{Digest, Hash as _};
use mempool::MempoolMessage;
use serde_json::{json, Value};
use std::cell::RefCell;
use std::collections::{BTreeMap, BTreeSet, HashMap, HashSet};
use std::rc::Rc;
use store::Store;

const CFG_LEN: usize = 8;
/// C06: how many more windows a run is continued when the first two windows show no progress.
const EXTRA_WINDOWS: u64 = 8;

fn is_placeholder(b: &Block) -> bool {
    b.round == 0 || b.author == crypto::PublicKey::default()
}

/// Parent-linked, de-duplicated view of a commit sequence (delivery-order defects are C02's business).
fn chain_of(seq: &[(u64, u64, Rc<Block>)]) -> Vec<Rc<Block>> {
    let mut seen = HashSet::new();
    let mut v: Vec<Rc<Block>> = seq.iter().map(|(_, _, b)| b.clone()).filter(|b| !is_placeholder(b) && seen.insert(b.digest())).collect();
    v.sort_by_key(|b| b.round);
    v
}

fn consistent_chains(a: &[Rc<Block>], b: &[Rc<Block>]) -> bool {
    // one must be a prefix of the other (compared by digest at equal positions)
    a.iter().zip(b.iter()).all(|(x, y)| x.digest() == y.digest())
}

fn render_commits(m: &BTreeMap<u32, Vec<(u64, u64, Rc<Block>)>>) -> Value {
    json!(m.iter().map(|(n, v)| (n.to_string(), v.iter().map(|(t, _, b)| json!({"t_us": t, "round": b.round, "digest": crate::rig::short(&b.digest())})).collect::<Vec<_>>())).collect::<BTreeMap<_, _>>())
}

fn consensus_frames(log: &[Event]) -> Vec<(u64, u64, u32, u32, ConsensusMessage, bool)> {
    // (seq, t_us, writer, destination node, message, dropped)
    let mut v = Vec::new();
    for e in log {
        if let Ev::Sent { info, bytes, dropped } = &e.ev {
            if info.forward && port_kind(info.dst_port) == PortKind::Consensus {
                if let Ok(m) = bincode::deserialize::<ConsensusMessage>(bytes) {
                    v.push((e.seq, e.t_us, info.writer_node, node_of_port(info.dst_port), m, *dropped));
                }
            }
        }
    }
    v
}

// ------------------------------------------------------------------------------------------ C13

pub fn c13_def() -> PropDef {
    PropDef {
        id: "C13",
        level: "exploration",
        rule: "proptest cfg (4..5 real nodes through the real node.rs wiring, per-link keyed delays 5..45 ms i.e. well below the 1 s timeout, batch parameters, seeds) + tape -> clients submit 1..60 transactions of 10..150 bytes to tape-chosen nodes at tape-chosen instants, or (one case in six) a burst of 150..400 transactions that each seal a batch of their own, back to back, so that the proposers hold a backlog of hundreds of digests; variant (half of the cases): one victim never receives the batch broadcasts of one creator (frames on that mempool link are dropped, so the creator reaches its quorum elsewhere and drops the handle) and, in half of those, the victim's batch requests to one peer are dropped too (unresponsive first sync target -> retry with other peers). In a third of the unresponsive-target cases the creator keeps receiving a transaction every 300 ms for 14 s after the generated load, and the victim's highest committed round must grow during the last 12 s of that phase (a retry that only works once the node is idle does not count). No crashes; cases in which a Timeout/TC nevertheless appears are outside the property's domain and are skipped (counted). Oracle after a quiescence horizon (extended by up to 30 virtual seconds while some node's highest committed round is more than 6 below another's: the property sets no deadline for the recovery of a node that lacks a batch, and recovery may have to wait for the consensus synchronizer's 5 s retry tick): every submitted transaction occurs in a batch whose digest is in the payload of a block that is in every node's commit sequence, and re-opening every node's store (Store::new on the same path) returns exactly that batch's bytes; commit sequences are pairwise prefix-consistent; the victim's highest committed round is within 6 rounds of the others' and it sent a BatchRequest and stored the batch it had missed. Non-trivial: transactions went to >= 2 nodes and >= 3 non-empty blocks were committed, or (variant) a batch was fetched by request; distinct by (delays, load pattern) hash.",
        assumptions: &[
            "no faults other than the dropped mempool link of the variant; delays below a quarter of the round timeout",
            "the commit channel is observed through the real Node::commit receiver",
        ],
        parts: vec![Part { name: "end-to-end", cfg_len: CFG_LEN, tape_max: 220, quick: 1_500, thorough: 40_000, max_shrink_iters: 60, run: c13_run }],
    }
}

fn c13_run(case: &Case, _ctx: &Ctx) -> Outcome {
    let n = cfg_range(&case.cfg, 0, 4, 5) as usize;
    let w = World::new(&vec![1u32; n], cfg_range(&case.cfg, 1, 0, 3));
    let base_ms = cfg_range(&case.cfg, 2, 5, 30);
    let jitter_ms = cfg_range(&case.cfg, 3, 0, 15);
    let net_seed = case.cfg.get(4).copied().unwrap_or(0) as u64;
    let rt_seed = case.cfg.get(5).copied().unwrap_or(0) as u64;
    let params = NodeParams {
        timeout_delay: 1_000,
        sync_retry_delay: 1_000,
        gc_depth: 50,
        mempool_sync_retry_delay: 300,
        sync_retry_nodes: 3,
        batch_size: cfg_range(&case.cfg, 6, 60, 400) as usize,
        max_batch_delay: cfg_range(&case.cfg, 7, 10, 80),
    };
    let mut t = Tape::new(&case.tape);
    // burst profile (one case in six): 150..400 transactions, each sealing a batch of its own, submitted
    // back to back to tape-chosen nodes, so that the proposers hold a backlog of hundreds of digests
    let burst = t.chance(1, 6);
    let mut params = params;
    if burst {
        params.batch_size = 20;
    }
    let ntx = if burst { t.range(150, 400) } else { t.range(1, 60) } as usize;
    let mut plan: Vec<(usize, Vec<u8>, u64)> = Vec::new(); // (node, tx, gap ms)
    for i in 0..ntx {
        let node = t.below(n);
        let len = if burst { t.range(24, 40) } else { t.range(10, 150) } as usize;
        let mut tx = vec![1u8; len];
        tx[1..9].copy_from_slice(&(i as u64 + 1).to_be_bytes());
        tx[9] = node as u8;
        let gap = if burst {
            if t.chance(1, 40) { t.range(1, 20) } else { 0 }
        } else {
            match t.weighted(&[3, 3, 1]) {
                0 => 0,
                1 => t.range(1, 30),
                _ => t.range(30, 150),
            }
        };
        plan.push((node, tx, gap));
    }
    let variant = t.chance(1, 2);
    let victim = t.below(n);
    let creator = (victim + 1 + t.below(n - 1)) % n;
    let unresponsive = variant && t.chance(1, 2);
    let deaf = (victim + 1 + t.below(n - 1)) % n;
    // sustained load (a third of the unresponsive-target cases, never together with a burst): after the
    // generated load the creator keeps receiving one transaction every 300 ms for 14 s, so that the
    // victim keeps missing batches while it waits for an earlier one. Its commits must keep growing
    // during that phase: a retry mechanism that only works once the node is idle does not count.
    let sustained = unresponsive && !burst && t.chance(1, 3);
    let base_plan_len = plan.len();
    if sustained {
        for k in 0..47u64 {
            let mut tx = vec![1u8; 30];
            tx[1..9].copy_from_slice(&(10_000 + k).to_be_bytes());
            tx[9] = creator as u8;
            plan.push((creator, tx, 300));
        }
    }
    let dir = sim::scratch_dir("c13");
    let _g = sim::ScratchGuard(dir.clone());
    let real: Vec<usize> = (0..n).collect();
    let horizon_ms = 2_200 + if unresponsive { 1_800 } else { 0 };
    let (w2, dir2, params2, plan2) = (&w, dir.clone(), params.clone(), plan.clone());
    sim::run_sim(rt_seed ^ 0xc13, || async move {
        let ctl: SharedCtl = Rc::new(RefCell::new(NetCtl::new(net_seed)));
        {
            let mut c = ctl.borrow_mut();
            c.base_us = base_ms * 1000;
            c.jitter_us = jitter_ms * 1000;
            if variant {
                c.drop_links.insert((creator as u32 + 1, victim as u32 + 1, PortKind::Mempool));
                if unresponsive {
                    c.drop_links.insert((victim as u32 + 1, deaf as u32 + 1, PortKind::Mempool));
                }
            }
        }
        cluster::install_policy(ctl.clone());
        cluster::start_real_nodes(w2, &real, &dir2, &params2).await;
        tokio::time::sleep(ms(20)).await;
        let mut conns = Conns::default();
        for (k, (node, tx, gap)) in plan2.into_iter().enumerate() {
            if sustained && k == base_plan_len {
                sim::log(Ev::Note("sustained-start".into()));
            }
            if gap > 0 {
                tokio::time::sleep(ms(gap)).await;
            }
            let _ = conns.tx(200 + node as u32, node, tx).await;
        }
        if sustained {
            sim::log(Ev::Note("sustained-end".into()));
        }
        tokio::time::sleep(ms(horizon_ms)).await;
        // The property sets no deadline for a node that lacks a batch ("obtains it ... and then resumes
        // processing"): recovery may have to wait for the consensus synchronizer's 5 s retry tick (for
        // instance when a burst of commits garbage-collects the batch request that had just been
        // registered) and for the backward walk over everything produced meanwhile. While some node
        // is still behind, keep the cluster running - up to 30 more virtual seconds - before judging.
        let mut extra = 0;
        while extra < 30 {
            let tops: Vec<u64> = sim::with_log(|log| {
                let c = commits_by_node(log);
                (1..=n as u32).map(|i| c.get(&i).and_then(|v| v.iter().map(|(_, _, b)| b.round).max()).unwrap_or(0)).collect()
            });
            let (lo, hi) = (tops.iter().min().copied().unwrap_or(0), tops.iter().max().copied().unwrap_or(0));
            if lo + 6 >= hi {
                break;
            }
            tokio::time::sleep(ms(1_000)).await;
            extra += 1;
        }
        if extra > 0 {
            sim::log(Ev::Note(format!("horizon extended by {} s", extra)));
            // let the last catch-up burst settle
            tokio::time::sleep(ms(300)).await;
        }
    });
    let log = sim::take_log();
    let panics = sim::panics();
    let mut out = Outcome::default();
    let load: Vec<Value> = plan.iter().take(15).map(|(nd, tx, gap)| json!({"node": nd, "len": tx.len(), "gap_ms": gap})).collect();
    out.sample = json!({"n": n, "base_delay_ms": base_ms, "jitter_ms": jitter_ms, "batch_size": params.batch_size, "max_batch_delay_ms": params.max_batch_delay, "transactions": ntx, "load": load,
        "variant": if variant { json!({"victim": victim, "creator": creator, "unresponsive_first_target": if unresponsive { json!(deaf) } else { json!(null) }}) } else { json!(null) }});
    out.fingerprint = fnv(format!("{}|{}|{}|{:?}|{}{}{}", n, base_ms, jitter_ms, plan.iter().map(|(a, b, c)| (*a, b.len(), *c)).collect::<Vec<_>>(), variant, victim, creator).as_bytes());
    if !panics.is_empty() {
        out.class("skipped:node-panicked");
        return out;
    }
    let frames = consensus_frames(&log);
    if frames.iter().any(|f| matches!(f.4, ConsensusMessage::Timeout(_) | ConsensusMessage::TC(_))) {
        out.class("skipped:view-change-observed");
        return out;
    }
    if log.iter().any(|e| matches!(&e.ev, Ev::Note(n) if n.starts_with("horizon extended"))) {
        out.class("horizon-extended-for-a-lagging-node");
    }
    let commits = commits_by_node(&log);
    let chains: BTreeMap<u32, Vec<Rc<Block>>> = commits.iter().map(|(k, v)| (*k, chain_of(v))).collect();
    // batches seen on the mempool wire
    let mut batch_of_tx: HashMap<Vec<u8>, Vec<Digest>> = HashMap::new();
    let mut batch_bytes: HashMap<Digest, Vec<u8>> = HashMap::new();
    let mut batch_requests_by_victim = 0;
    for e in &log {
        if let Ev::Sent { info, bytes, .. } = &e.ev {
            if info.forward && port_kind(info.dst_port) == PortKind::Mempool {
                match bincode::deserialize::<MempoolMessage>(bytes) {
                    Ok(MempoolMessage::Batch(txs)) => {
                        let d = sha512_32(bytes);
                        if batch_bytes.insert(d.clone(), bytes.to_vec()).is_none() {
                            for tx in txs {
                                batch_of_tx.entry(tx).or_default().push(d.clone());
                            }
                        }
                    }
                    Ok(MempoolMessage::BatchRequest(..)) => {
                        if info.writer_node == victim as u32 + 1 {
                            batch_requests_by_victim += 1;
                        }
                    }
                    _ => {}
                }
            }
        }
    }
    let note_time = |name: &str| log.iter().find_map(|e| match &e.ev {
        Ev::Note(n) if n == name => Some(e.t_us),
        _ => None,
    });
    let sustained_window = match (note_time("sustained-start"), note_time("sustained-end")) {
        (Some(a), Some(b)) if b > a + 2_000_000 => Some((a + 2_000_000, b)),
        _ => None,
    };
    let hist = |extra: Value| {
        // what the victim's mempool sent and was sent (batch requests and the batches answering them)
        let vid = victim as u32 + 1;
        let traffic: Vec<Value> = if variant {
            log.iter()
                .filter_map(|e| match &e.ev {
                    Ev::Sent { info, bytes, dropped } if info.forward && port_kind(info.dst_port) == PortKind::Mempool && (info.writer_node == vid || node_of_port(info.dst_port) == vid) => {
                        let what = match bincode::deserialize::<MempoolMessage>(bytes) {
                            Ok(MempoolMessage::Batch(_)) => format!("Batch {}", crate::rig::short(&sha512_32(bytes))),
                            Ok(MempoolMessage::BatchRequest(ds, _)) => format!("BatchRequest {:?}", ds.iter().map(crate::rig::short).collect::<Vec<_>>()),
                            Err(_) => "?".into(),
                        };
                        if info.writer_node == vid && what.starts_with("Batch ") {
                            return None;
                        }
                        Some(json!({"t_us": e.t_us, "from": info.writer_node, "to": node_of_port(info.dst_port), "msg": what, "dropped": dropped}))
                    }
                    _ => None,
                })
                .filter(|v| v["msg"].as_str().map_or(false, |m| m.starts_with("BatchRequest")) || v["from"] != json!(vid))
                .take(std::env::var("VERIF_DUMP").ok().and_then(|v| v.parse().ok()).unwrap_or(60))
                .collect()
        } else {
            Vec::new()
        };
        if let Ok(w) = std::env::var("VERIF_DEBUG_WINDOW") {
            // "from_us,to_us": every event of the victim in the window, for debugging a replay
            let mut it = w.split(',').map(|x| x.parse::<u64>().unwrap_or(0));
            let (a, b) = (it.next().unwrap_or(0), it.next().unwrap_or(u64::MAX));
            for e in log.iter().filter(|e| e.t_us >= a && e.t_us <= b) {
                match &e.ev {
                    Ev::Sent { info, bytes, dropped } if info.writer_node == vid || node_of_port(info.dst_port) == vid || info.src_node == vid => {
                        let what = match port_kind(info.dst_port) {
                            PortKind::Consensus if info.forward => bincode::deserialize::<ConsensusMessage>(bytes).map(|m| crate::solo::render_msg(&m)).unwrap_or_else(|_| "?".into()),
                            PortKind::Mempool if info.forward => match bincode::deserialize::<MempoolMessage>(bytes) {
                                Ok(MempoolMessage::Batch(_)) => format!("Batch {}", crate::rig::short(&sha512_32(bytes))),
                                Ok(MempoolMessage::BatchRequest(ds, _)) => format!("BatchRequest {:?}", ds.iter().map(crate::rig::short).collect::<Vec<_>>()),
                                Err(_) => "?".into(),
                            },
                            _ => format!("{} bytes (ack or tx)", bytes.len()),
                        };
                        eprintln!("DBG {} writer={} port={} fwd={} dropped={} {}", e.t_us, info.writer_node, info.dst_port, info.forward, dropped, what);
                    }
                    Ev::StoreWrite { node, key, len } if *node == vid => eprintln!("DBG {} store-write {} ({} bytes)", e.t_us, crate::rig::short(&Digest(std::convert::TryInto::try_into(&key[..]).unwrap_or([0u8; 32]))), len),
                    Ev::Commit { node, block } if *node == vid => eprintln!("DBG {} commit round {}", e.t_us, block.round),
                    _ => {}
                }
            }
        }
        json!({"n": n, "variant": variant, "victim": victim, "creator": creator, "unresponsive": unresponsive, "deaf": deaf, "detail": extra, "commits": render_commits(&commits), "victim_mempool_traffic": traffic})
    };
    // sustained load: the victim's commits keep growing while batches keep coming
    if let Some((a, b)) = sustained_window {
        out.class("sustained-load-while-victim-misses-batches");
        let vid = victim as u32 + 1;
        let top = |until: u64| commits.get(&vid).map_or(0, |v| v.iter().filter(|(t, _, _)| *t <= until).map(|(_, _, bl)| bl.round).max().unwrap_or(0));
        let others_grew = commits.iter().filter(|(k, _)| **k != vid).all(|(_, v)| v.iter().any(|(t, _, _)| *t > a));
        if others_grew && top(b) <= top(a) {
            out.violate(
                "victim-stalled-under-sustained-load",
                format!("the victim's highest committed round stayed at {} for the {} ms of sustained load (the others kept committing); it resumes only once the load stops", top(a), (b - a) / 1000),
                hist(json!(null)),
            );
        }
    }
    // pairwise consistency
    let ids: Vec<u32> = chains.keys().copied().collect();
    for i in 0..ids.len() {
        for j in i + 1..ids.len() {
            if !consistent_chains(&chains[&ids[i]], &chains[&ids[j]]) {
                out.violate("commit-sequences-diverge", format!("nodes {} and {} committed different blocks at the same position", ids[i], ids[j]), hist(json!(null)));
            }
        }
    }
    if chains.len() != n {
        out.violate("node-committed-nothing", format!("only {} of {} nodes committed anything in a fault-free run", chains.len(), n), hist(json!(null)));
    }
    // payload digests committed by all
    let mut committed_everywhere: Option<HashSet<Digest>> = None;
    for c in chains.values() {
        let set: HashSet<Digest> = c.iter().flat_map(|b| b.payload.iter().cloned()).collect();
        committed_everywhere = Some(match committed_everywhere {
            None => set,
            Some(prev) => prev.intersection(&set).cloned().collect(),
        });
    }
    let committed_everywhere = committed_everywhere.unwrap_or_default();
    let mut needed: BTreeSet<Vec<u8>> = BTreeSet::new();
    for (node, tx, _) in &plan {
        match batch_of_tx.get(tx) {
            None => out.violate("transaction-never-batched", format!("a transaction submitted to node {} never appeared in a batch", node), hist(json!(null))),
            Some(ds) => {
                if !ds.iter().any(|d| committed_everywhere.contains(d)) {
                    out.violate("transaction-not-committed-everywhere", format!("a transaction submitted to node {} is in no batch referenced by a block that every node committed", node), hist(json!(null)));
                } else {
                    for d in ds {
                        if committed_everywhere.contains(d) {
                            needed.insert(d.0.to_vec());
                        }
                    }
                }
            }
        }
        if !out.violations.is_empty() {
            break;
        }
    }
    // stores: reopen and read the batches
    if out.violations.is_empty() {
        for i in 0..n {
            let path = format!("{}/db-{}", dir, i);
            let keys: Vec<Vec<u8>> = needed.iter().cloned().collect();
            let got: Vec<Option<Vec<u8>>> = sim::run_sim(1, || async move {
                let mut s = Store::new(&path).expect("reopen store");
                let mut v = Vec::new();
                for k in keys {
                    v.push(s.read(k).await.ok().flatten());
                }
                v
            });
            for (k, g) in needed.iter().zip(got.iter()) {
                let d = Digest(std::convert::TryInto::try_into(&k[..]).unwrap());
                if g.as_ref() != batch_bytes.get(&d) {
                    out.violate("committed-batch-not-readable-from-store", format!("node {}: batch {} is {} in its re-opened store", i + 1, crate::rig::short(&d), if g.is_none() { "missing" } else { "different" }), hist(json!(null)));
                }
            }
        }
    }
    let nonempty = chains.values().next().map_or(0, |c| c.iter().filter(|b| !b.payload.is_empty()).count());
    let nodes_used: BTreeSet<usize> = plan.iter().map(|(nd, _, _)| *nd).collect();
    let mut fetched = false;
    if variant {
        out.class("victim-misses-a-creator's-batches");
        // did the creator create anything at all?
        let creator_batches: Vec<Digest> = log
            .iter()
            .filter_map(|e| match &e.ev {
                Ev::Sent { info, bytes, .. } if info.writer_node == creator as u32 + 1 && info.forward && port_kind(info.dst_port) == PortKind::Mempool => match bincode::deserialize::<MempoolMessage>(bytes) {
                    Ok(MempoolMessage::Batch(_)) => Some(sha512_32(bytes)),
                    _ => None,
                },
                _ => None,
            })
            .collect();
        let relevant: Vec<&Digest> = creator_batches.iter().filter(|d| committed_everywhere.contains(*d)).collect();
        if !relevant.is_empty() {
            let vid = victim as u32 + 1;
            let max_round = |id: u32| chains.get(&id).and_then(|c| c.last()).map_or(0, |b| b.round);
            let others_max = ids.iter().filter(|i| **i != vid).map(|i| max_round(*i)).min().unwrap_or(0);
            if max_round(vid) + 6 < others_max {
                out.violate("victim-stalled-behind-missing-batch", format!("the victim committed up to round {} while the others reached {}", max_round(vid), others_max), hist(json!(null)));
            }
            if batch_requests_by_victim > 0 {
                fetched = true;
                out.class("batch-fetched-by-request");
            }
            if unresponsive {
                out.class("first-sync-target-unresponsive");
            }
        }
    }
    if burst {
        out.class("burst-of-single-transaction-batches");
        let biggest = chains.values().next().map_or(0, |c| c.iter().map(|b| b.payload.len()).max().unwrap_or(0));
        out.class(&format!("largest-committed-payload={}", match biggest { 0..=31 => "<32", 32..=99 => "32-99", 100..=199 => "100-199", _ => "200+" }));
    }
    out.class(&format!("nonempty-blocks={}", match nonempty { 0 => "0", 1..=2 => "1-2", _ => "3+" }));
    out.nontrivial = (nodes_used.len() >= 2 && nonempty >= 3) || fetched;
    out
}

// ------------------------------------------------------------------------------------------ C07

pub fn c07_def() -> PropDef {
    PropDef {
        id: "C07",
        level: "exploration",
        rule: "proptest cfg (4..5 real nodes, equal stakes so the others are a quorum, keyed delays 12..40 ms, timeout 400 ms, seeds) + tape -> one victim is cut off (connections reset and refused, or frames silently dropped - tape) from a tape-chosen instant for a tape-chosen length (gap of 1..40 blocks; rounds led by the victim force view changes inside the gap), then reconnected; in a quarter of the cases the victim's SyncRequest frames to one peer are dropped for the rest of the run (unresponsive first sync target -> retry with all peers). Oracle: (i) every Propose written in reply to a SyncRequest(d) carries a block whose digest is d, reference-valid and byte-equal to a copy that was proposed on the wire; (ii) at the horizon (computed from gap length, delays and the retry period) the victim's committed chain has reached the round the others had committed when it was reconnected, and all commit chains are prefix-consistent; (iii) when the first target stays silent, requests for the missing digest reach other peers; (iv) on the victim, every block fetched through sync is written to the store after its parent (or its parent is genesis). Non-trivial: gap >= 3 blocks; classes with / without a view change inside the gap, retry path taken; distinct by (delays, isolation interval) hash.",
        assumptions: &["the others (n-1 of n equal stakes, n <= 5) form a quorum and keep committing while the victim is cut off"],
        parts: vec![Part { name: "catch-up", cfg_len: CFG_LEN, tape_max: 40, quick: 800, thorough: 25_000, max_shrink_iters: 60, run: c07_run }],
    }
}

fn c07_run(case: &Case, _ctx: &Ctx) -> Outcome {
    let n = cfg_range(&case.cfg, 0, 4, 5) as usize;
    let w = World::new(&vec![1u32; n], cfg_range(&case.cfg, 1, 0, 3));
    let base_ms = cfg_range(&case.cfg, 2, 12, 30);
    let jitter_ms = cfg_range(&case.cfg, 3, 0, 10);
    let net_seed = case.cfg.get(4).copied().unwrap_or(0) as u64;
    let rt_seed = case.cfg.get(5).copied().unwrap_or(0) as u64;
    let params = NodeParams { timeout_delay: 400, sync_retry_delay: 500, gc_depth: 50, mempool_sync_retry_delay: 300, sync_retry_nodes: 3, batch_size: 200, max_batch_delay: 50 };
    let mut t = Tape::new(&case.tape);
    let victim = t.below(n);
    let start_ms = t.range(30, 700);
    let len_ms = match t.weighted(&[3, 3, 2]) {
        0 => t.range(20, 300),
        1 => t.range(300, 1_200),
        _ => t.range(1_200, 3_000),
    };
    let mode = if t.chance(1, 2) { LinkMode::Cut } else { LinkMode::Drop };
    let unresponsive = t.chance(1, 4);
    // with an unresponsive peer every hop of the backward walk that targets it costs one 5 s retry
    // tick, so the isolation is kept short in that variant
    let len_ms = if unresponsive { len_ms.min(1_000) } else { len_ms };
    let deaf = (victim + 1 + t.below(n - 1)) % n;
    let max_delay = base_ms + jitter_ms;
    // upper bound on the blocks produced while the victim is away: per rotation n-1 fast rounds
    // (about two message delays each) and one timeout for the round the victim should lead
    let rotation_ms = (n as u64 - 1) * 2 * base_ms + params.timeout_delay;
    let gap_bound = (len_ms / rotation_ms + 2) * n as u64;
    let deaf_hops = if unresponsive { gap_bound / n as u64 + 3 } else { 0 };
    // the retry of an unanswered sync request happens on a 5 s timer tick (TIMER_ACCURACY) once the
    // request is older than sync_retry_delay; a node that proposed on a QC whose block it lacks first
    // asks itself (the author of its own block), so one retry tick is on the normal path
    let catchup_ms = 4 * params.timeout_delay + gap_bound * 6 * max_delay + 600 + 5_500 + params.sync_retry_delay + deaf_hops * 5_000;
    let dir = sim::scratch_dir("c07");
    let _g = sim::ScratchGuard(dir.clone());
    let real: Vec<usize> = (0..n).collect();
    let (w2, dir2, params2, mode2) = (&w, dir.clone(), params.clone(), mode.clone());
    let vid = victim as u32 + 1;
    let did = deaf as u32 + 1;
    let heal_us: u64 = sim::run_sim(rt_seed ^ 0xc07, || async move {
        let ctl: SharedCtl = Rc::new(RefCell::new(NetCtl::new(net_seed)));
        {
            let mut c = ctl.borrow_mut();
            c.base_us = base_ms * 1000;
            c.jitter_us = jitter_ms * 1000;
            if unresponsive {
                c.hook = Some(Box::new(move |info, payload, src, dst| {
                    if src == vid && dst == did && cluster::consensus_kind(info, payload) == Some(4) {
                        Some(network::simnet::FrameDecision::Drop)
                    } else {
                        None
                    }
                }));
            }
        }
        cluster::install_policy(ctl.clone());
        cluster::start_real_nodes(w2, &real, &dir2, &params2).await;
        tokio::time::sleep(ms(start_ms)).await;
        cluster::isolate(&ctl, vid, mode2);
        tokio::time::sleep(ms(len_ms)).await;
        cluster::heal(&ctl, vid);
        let heal = sim::now_us();
        sim::log(Ev::Note("healed".into()));
        tokio::time::sleep(ms(catchup_ms)).await;
        heal
    });
    let log = sim::take_log();
    let panics = sim::panics();
    let mut out = Outcome::default();
    out.sample = json!({"n": n, "victim": victim, "isolation_start_ms": start_ms, "isolation_ms": len_ms, "mode": format!("{:?}", mode), "base_delay_ms": base_ms, "jitter_ms": jitter_ms,
        "unresponsive_first_target": if unresponsive { json!(deaf) } else { json!(null) }, "catch_up_budget_ms": catchup_ms});
    out.fingerprint = fnv(format!("{}|{}|{}|{}|{}|{:?}|{}|{}", n, victim, start_ms, len_ms, base_ms, mode, unresponsive, net_seed).as_bytes());
    if !panics.is_empty() {
        out.class("skipped:node-panicked");
        return out;
    }
    let commits = commits_by_node(&log);
    let chains: BTreeMap<u32, Vec<Rc<Block>>> = commits.iter().map(|(k, v)| (*k, chain_of(v))).collect();
    let wire = blocks_on_wire(&log);
    let frames = consensus_frames(&log);
    let hist = |extra: Value| {
        let around: Vec<Value> = log
            .iter()
            .filter(|e| e.t_us + 50_000 >= heal_us)
            .filter_map(|e| match &e.ev {
                Ev::Sent { info, bytes, dropped } if port_kind(info.dst_port) == PortKind::Consensus && (info.writer_node == vid || node_of_port(info.dst_port) == vid || info.src_node == vid) => {
                    let what = if info.forward { bincode::deserialize::<ConsensusMessage>(bytes).map(|m| crate::solo::render_msg(&m)).unwrap_or_else(|_| "?".into()) } else { "ack".to_string() };
                    Some(json!({"t_us": e.t_us, "writer": info.writer_node, "to_port": info.dst_port, "fwd": info.forward, "msg": what, "dropped": dropped}))
                }
                Ev::Opened { conn, src, port } if *src == vid || node_of_port(*port) == vid => Some(json!({"t_us": e.t_us, "opened": conn, "src": src, "port": port})),
                Ev::Closed { conn } => Some(json!({"t_us": e.t_us, "closed": conn})),
                Ev::Note(n) => Some(json!({"t_us": e.t_us, "note": n})),
                _ => None,
            })
            .take(std::env::var("VERIF_DUMP").ok().and_then(|v| v.parse().ok()).unwrap_or(150))
            .collect();
        json!({"n": n, "victim": victim, "mode": format!("{:?}", mode), "start_ms": start_ms, "len_ms": len_ms, "heal_us": heal_us, "unresponsive": unresponsive, "deaf": deaf, "detail": extra, "commits": render_commits(&commits), "victim_traffic_from_heal": around})
    };
    // (i) helper replies: a Propose written by a node that is not the block's author, or re-sent later, is a sync reply
    let mut requested: Vec<(u64, u32, u32, Digest)> = Vec::new(); // (seq, requester, target, digest)
    for (seq, _, writer, dst, m, dropped) in &frames {
        if let ConsensusMessage::SyncRequest(d, _) = m {
            if !*dropped {
                requested.push((*seq, *writer, *dst, d.clone()));
            }
        }
    }
    let mut first_proposal_bytes: HashMap<Digest, Vec<u8>> = HashMap::new();
    for (_, _, writer, _, m, _) in &frames {
        if let ConsensusMessage::Propose(b) = m {
            if w.index_of(&b.author) == Some(*writer as usize - 1) {
                first_proposal_bytes.entry(b.digest()).or_insert_with(|| bincode::serialize(b).unwrap());
            }
        }
    }
    let mut replies = 0;
    for (seq, _, writer, dst, m, _) in &frames {
        if let ConsensusMessage::Propose(b) = m {
            let is_author = w.index_of(&b.author) == Some(*writer as usize - 1);
            if is_author {
                continue;
            }
            // written by a non-author: must answer an earlier request of `dst` to `writer` for exactly this digest
            replies += 1;
            let d = b.digest();
            let asked = requested.iter().any(|(s, req, tgt, rd)| s < seq && *req == *dst && *tgt == *writer && *rd == d);
            if !asked {
                out.violate("sync-reply-with-unrequested-block", format!("node {} sent node {} a block (round {}) it had not asked for", writer, dst, b.round), hist(json!(null)));
            }
            if refvalid::ref_block(&w, b).is_err() {
                out.violate("sync-reply-invalid-block", format!("node {} answered a sync request with an invalid block", writer), hist(json!(null)));
            }
            if let Some(orig) = first_proposal_bytes.get(&d) {
                let back = bincode::serialize(b).unwrap();
                // the QC vote list / TC are not covered by the digest but the stored copy is the one its author proposed
                if *orig != back && wire.get(&d).is_some() {
                    out.violate("sync-reply-differs-from-proposed-block", format!("block of round {} served by node {} differs from what its author proposed", b.round, writer), hist(json!(null)));
                }
            }
        }
    }
    // (ii) convergence
    let others: Vec<u32> = chains.keys().copied().filter(|i| *i != vid).collect();
    let others_at_heal: u64 = commits
        .iter()
        .filter(|(k, _)| **k != vid)
        .map(|(_, v)| v.iter().filter(|(tt, _, _)| *tt <= heal_us).map(|(_, _, b)| b.round).max().unwrap_or(0))
        .min()
        .unwrap_or(0);
    let victim_max = chains.get(&vid).and_then(|c| c.last()).map_or(0, |b| b.round);
    if victim_max < others_at_heal {
        out.violate(
            "victim-did-not-catch-up",
            format!("{} ms after reconnection the victim has committed up to round {}, the others had reached {} when it was reconnected", catchup_ms, victim_max, others_at_heal),
            hist(json!(null)),
        );
    }
    let ids: Vec<u32> = chains.keys().copied().collect();
    for i in 0..ids.len() {
        for j in i + 1..ids.len() {
            if !consistent_chains(&chains[&ids[i]], &chains[&ids[j]]) {
                out.violate("commit-sequences-diverge", format!("nodes {} and {} committed different blocks at the same position", ids[i], ids[j]), hist(json!(null)));
            }
        }
    }
    // the gap: blocks the others committed that the victim had not at heal time
    let victim_at_heal = commits.get(&vid).map_or(0, |v| v.iter().filter(|(tt, _, _)| *tt <= heal_us).map(|(_, _, b)| b.round).max().unwrap_or(0));
    let gap_blocks = others.first().and_then(|o| chains.get(o)).map_or(0, |c| c.iter().filter(|b| b.round > victim_at_heal && b.round <= others_at_heal).count());
    // (iii) retry reaches other peers
    let victim_requests: Vec<&(u64, u32, u32, Digest)> = requested.iter().filter(|(_, r, _, _)| *r == vid).collect();
    let mut retried = false;
    if unresponsive {
        // digests the victim asked the deaf peer for (those frames were dropped, so look at all of its SyncRequest frames)
        let asked_deaf: Vec<Digest> = frames.iter().filter_map(|(_, _, wr, dst, m, _)| match m {
            ConsensusMessage::SyncRequest(d, _) if *wr == vid && *dst == did => Some(d.clone()),
            _ => None,
        }).collect();
        for d in &asked_deaf {
            if victim_requests.iter().any(|(_, _, tgt, rd)| *tgt != did && rd == d) {
                retried = true;
            }
        }
        if !asked_deaf.is_empty() {
            out.class("first-target-was-asked-and-stayed-silent");
        }
    }
    // (iv) oldest first on the victim: store write of a fetched block after its parent's
    let mut written: HashMap<Vec<u8>, u64> = HashMap::new();
    for e in &log {
        if let Ev::StoreWrite { node, key, .. } = &e.ev {
            if *node == vid {
                written.entry(key.clone()).or_insert(e.seq);
            }
        }
    }
    for (d, b) in &wire {
        if let Some(s) = written.get(&d.0.to_vec()) {
            if !refvalid::is_genesis_qc(&b.qc) {
                match written.get(&b.qc.hash.0.to_vec()) {
                    Some(ps) if ps < s => {}
                    Some(_) => out.violate("block-stored-before-its-parent", format!("the victim stored the block of round {} before its parent", b.round), hist(json!(null))),
                    None => out.violate("block-stored-without-its-parent", format!("the victim stored the block of round {} but never its parent", b.round), hist(json!(null))),
                }
            }
        }
    }
    let view_change_in_gap = frames.iter().any(|(_, tt, _, _, m, _)| matches!(m, ConsensusMessage::TC(_)) && *tt >= start_ms * 1000 && *tt <= heal_us);
    if view_change_in_gap {
        out.class("view-change-inside-gap");
    }
    if replies > 0 {
        out.class("sync-replies-seen");
    }
    if retried {
        out.class("retry-reached-other-peers");
    }
    out.class(&format!("gap={}", match gap_blocks { 0 => "0", 1..=2 => "1-2", 3..=10 => "3-10", _ => "11+" }));
    out.class(&format!("mode={:?}", mode));
    out.nontrivial = gap_blocks >= 3;
    out
}

// ------------------------------------------------------------------------------------------ C06

pub fn c06_def() -> PropDef {
    PropDef {
        id: "C06",
        level: "exploration",
        rule: "proptest cfg (n = 4..7 equal stakes, timeout 500 ms, post-stabilisation keyed delays 15..45 ms, seeds) + tape -> up to f = floor((n-1)/3) authorities crash: at a tape-chosen instant, after their k-th written frame, or after their k-th Timeout / TC / Propose frame (so that a crash falls inside one broadcast; everything written before the crash point is still delivered, nothing after); before a tape-chosen stabilisation instant GST (0.3..3 s) frames are additionally delayed by up to 2.5 timeouts (delayed, never lost), which leaves nodes in different rounds at GST. Oracle (bounded liveness; the harness owns the clock): after GST + settle there are two consecutive windows of length W in each of which every live node's highest committed round grows, with settle = W = 2*(2f+2)*timeout + 40 round trips; the first pair of windows is expected to do, and when it does not the run is continued for up to 8 more windows (a live node that lacks blocks authored by crashed nodes fetches each of them only at a tick of the synchronizer's fixed 5 s retry timer, a term that does not scale with the round timeout) - only a cluster that shows no such pair of windows by then counts as stalled. Non-trivial: a crashed authority was the leader of a round inside the measured windows and >= 2 distinct rounds were held by live nodes at GST; distinct by (n, crash plan, delays) hash.",
        assumptions: &[
            "crash model: a crashed node's earlier frames are still delivered (delayed, not lost), as the property's premise states",
            "only stalls (no two consecutive windows with progress within ten windows after stabilisation) are detectable; 'eventually' as such is not",
        ],
        parts: vec![Part { name: "crash-liveness", cfg_len: CFG_LEN, tape_max: 60, quick: 600, thorough: 30_000, max_shrink_iters: 60, run: c06_run }],
    }
}

fn c06_run(case: &Case, _ctx: &Ctx) -> Outcome {
    let n = cfg_range(&case.cfg, 0, 4, 7) as usize;
    let w = World::new(&vec![1u32; n], cfg_range(&case.cfg, 1, 0, 3));
    let base_ms = cfg_range(&case.cfg, 2, 15, 35);
    let jitter_ms = cfg_range(&case.cfg, 3, 0, 10);
    let net_seed = case.cfg.get(4).copied().unwrap_or(0) as u64;
    let rt_seed = case.cfg.get(5).copied().unwrap_or(0) as u64;
    let tau = 500u64;
    let params = NodeParams { timeout_delay: tau, sync_retry_delay: 1_000, gc_depth: 50, mempool_sync_retry_delay: 500, sync_retry_nodes: 3, batch_size: 200, max_batch_delay: 50 };
    let f = (n - 1) / 3;
    let mut t = Tape::new(&case.tape);
    let ncrash = t.weighted(&[1, 4, 4]).min(f);
    let mut crashed: Vec<usize> = Vec::new();
    let mut plan: Vec<Value> = Vec::new();
    let mut crash_specs: Vec<(u32, Crash)> = Vec::new();
    for _ in 0..ncrash {
        let mut c = t.below(n);
        while crashed.contains(&c) {
            c = (c + 1) % n;
        }
        crashed.push(c);
        let spec = match t.weighted(&[3, 2, 5]) {
            0 => Crash { at_us: Some(t.range(0, 3_000_000)), after_frames: None, after_kind: None, kind_written: 0, split: None, split_seen: Vec::new(), crashed: false },
            1 => Crash { at_us: None, after_frames: Some(t.range(0, 120)), after_kind: None, kind_written: 0, split: None, split_seen: Vec::new(), crashed: false },
            _ => {
                let kind = *t.pick(&[2u32, 2, 3, 3, 0]);
                // k: within the first few broadcasts of that kind (n-1 frames each), often mid-broadcast
                let k = t.range(0, 3 * (n as u64 - 1));
                Crash { at_us: None, after_frames: None, after_kind: Some((kind, k)), kind_written: 0, split: None, split_seen: Vec::new(), crashed: false }
            }
        };
        plan.push(json!({"node": c + 1, "at_us": spec.at_us, "after_frames": spec.after_frames, "after_kind": spec.after_kind.map(|(k, i)| format!("{} #{}", ["Propose", "Vote", "Timeout", "TC"][k as usize], i))}));
        crash_specs.push((c as u32 + 1, spec));
    }
    // "split a TC" profile (n = 7): one authority crashes inside a Timeout broadcast that reaches a
    // single peer, that peer crashes inside the broadcast of the TC it then assembles
    let split_profile = n == 7 && t.chance(1, 2);
    if split_profile {
        crashed.clear();
        plan.clear();
        crash_specs.clear();
        // often the first leader, whose proposal is then merely delayed past the timeout
        let x2 = if t.chance(2, 3) { w.leader(1) } else { t.below(n) };
        let x1 = (x2 + 1 + t.below(n - 1)) % n;
        let others: Vec<u32> = (0..n).filter(|i| *i != x1 && *i != x2).map(|i| i as u32 + 1).collect();
        let k2 = t.weighted(&[4, 2, 1]) as u64;
        let mut keep2 = vec![x1 as u32 + 1];
        if t.chance(1, 4) {
            keep2.push(*t.pick(&others));
        }
        let k1 = t.weighted(&[5, 1]) as u64;
        let mut keep1: Vec<u32> = Vec::new();
        let cnt = 1 + t.below(3);
        for _ in 0..cnt {
            let c = *t.pick(&others);
            if !keep1.contains(&c) {
                keep1.push(c);
            }
        }
        crashed.push(x2);
        crashed.push(x1);
        plan.push(json!({"node": x2 + 1, "split": format!("Timeout broadcast #{} reaches only {:?}", k2, keep2)}));
        plan.push(json!({"node": x1 + 1, "split": format!("TC broadcast #{} reaches only {:?}", k1, keep1)}));
        crash_specs.push((x2 as u32 + 1, Crash { at_us: None, after_frames: None, after_kind: None, kind_written: 0, split: Some((2, k2, keep2)), split_seen: Vec::new(), crashed: false }));
        crash_specs.push((x1 as u32 + 1, Crash { at_us: None, after_frames: None, after_kind: None, kind_written: 0, split: Some((3, k1, keep1)), split_seen: Vec::new(), crashed: false }));
    }
    // staggered boot: nodes start up to one timeout apart (their first timers then fire apart)
    let mut boot_ms: Vec<u64> = (0..n).map(|_| if t.chance(1, 2) { 0 } else { t.range(50, tau) }).collect();
    if !split_profile && t.chance(1, 2) {
        boot_ms = vec![0; n];
    }
    let delay_first_leader = split_profile && t.chance(3, 4);
    let gst_ms = t.range(300, 3_000);
    let pre_extra_ms = match t.weighted(&[1, 2, 2]) {
        0 => 0,
        1 => t.range(50, tau),
        _ => t.range(tau, 5 * tau / 2),
    };
    let rtt = 2 * (base_ms + jitter_ms);
    let window_ms = 2 * (2 * f as u64 + 2) * tau + 40 * rtt;
    let settle_ms = window_ms + pre_extra_ms;
    let horizon_ms = gst_ms + settle_ms + 2 * window_ms;
    let dir = sim::scratch_dir("c06");
    let _g = sim::ScratchGuard(dir.clone());
    let real: Vec<usize> = (0..n).collect();
    let (w2, dir2, params2, specs2) = (&w, dir.clone(), params.clone(), crash_specs.clone());
    let boot2 = boot_ms.clone();
    let live2: Vec<u32> = (1..=n as u32).filter(|i| !crashed.contains(&(*i as usize - 1))).collect();
    sim::run_sim(rt_seed ^ 0xc06, || async move {
        let ctl: SharedCtl = Rc::new(RefCell::new(NetCtl::new(net_seed)));
        {
            let mut c = ctl.borrow_mut();
            c.base_us = base_ms * 1000;
            c.jitter_us = jitter_ms * 1000;
            c.gst_us = gst_ms * 1000;
            c.pre_gst_extra_us = pre_extra_ms * 1000;
            for (id, spec) in specs2 {
                c.crash.insert(id, spec);
            }
        }
        if delay_first_leader {
            // the first leader's proposal is delayed past the timeout (delayed, not lost)
            let first = w2.leader(1) as u32 + 1;
            ctl.borrow_mut().hook = Some(Box::new(move |info, payload, src, _dst| {
                if src == first && cluster::consensus_kind(info, payload) == Some(0) && sim::now_us() < 1_000_000 {
                    Some(network::simnet::FrameDecision::Deliver(std::time::Duration::from_millis(3 * tau)))
                } else {
                    None
                }
            }));
        }
        cluster::install_policy(ctl.clone());
        let mut order: Vec<usize> = real.clone();
        order.sort_by_key(|i| boot2[*i]);
        let mut now_ms = 0;
        for i in order {
            if boot2[i] > now_ms {
                tokio::time::sleep(ms(boot2[i] - now_ms)).await;
                now_ms = boot2[i];
            }
            cluster::start_real_nodes(w2, &[i], &dir2, &params2).await;
        }
        tokio::time::sleep(ms(horizon_ms)).await;
        // "Bounded number of round timeouts" has no constant in the property, and one term of the real
        // bound does not scale with the round timeout: a live node that lacks blocks authored by crashed
        // nodes (late boot, pre-stabilisation delays) fetches each of them only at a tick of the
        // synchronizer's fixed 5 s retry timer, and when every live vote is needed for a quorum the
        // whole cluster waits for it. So a failed pair of windows is not yet a stall: keep running, up
        // to EXTRA_WINDOWS more windows, and accept any two consecutive windows with progress.
        let mut j = 0;
        while j < EXTRA_WINDOWS {
            let ok = sim::with_log(|log| {
                let commits = commits_by_node(log);
                let base = (gst_ms + settle_ms + j * window_ms) * 1000;
                live2.iter().all(|node| {
                    let m = |until: u64| commits.get(node).map_or(0, |v| v.iter().filter(|(tt, _, _)| *tt <= until).map(|(_, _, b)| b.round).max().unwrap_or(0));
                    let (a, b, c) = (m(base), m(base + window_ms * 1000), m(base + 2 * window_ms * 1000));
                    b > a && c > b
                })
            });
            if ok {
                break;
            }
            tokio::time::sleep(ms(window_ms)).await;
            j += 1;
        }
    });
    let log = sim::take_log();
    let panics = sim::panics();
    let mut out = Outcome::default();
    out.sample = json!({"n": n, "f": f, "boot_ms": boot_ms, "first_leader_proposal_delayed": delay_first_leader, "crashes": plan, "gst_ms": gst_ms, "pre_gst_extra_delay_ms": pre_extra_ms, "base_delay_ms": base_ms, "jitter_ms": jitter_ms, "window_ms": window_ms, "settle_ms": settle_ms});
    out.fingerprint = fnv(format!("{}|{:?}|{}|{}|{}|{}", n, plan, gst_ms, pre_extra_ms, base_ms, net_seed).as_bytes());
    if !panics.is_empty() {
        out.class("skipped:node-panicked");
        return out;
    }
    let commits = commits_by_node(&log);
    let live: Vec<u32> = (1..=n as u32).filter(|i| !crashed.contains(&(*i as usize - 1))).collect();
    let t1 = (gst_ms + settle_ms) * 1000;
    let t2 = t1 + window_ms * 1000;
    let t3 = t2 + window_ms * 1000;
    let max_until = |node: u32, until: u64| commits.get(&node).map_or(0, |v| v.iter().filter(|(tt, _, _)| *tt <= until).map(|(_, _, b)| b.round).max().unwrap_or(0));
    let frames = consensus_frames(&log);
    // rounds held by live nodes around GST: the round of the last message each wrote before GST
    let mut round_at_gst: BTreeMap<u32, u64> = BTreeMap::new();
    for (_, tt, writer, _, m, _) in &frames {
        if *tt <= gst_ms * 1000 && live.contains(writer) {
            let r = match m {
                ConsensusMessage::Vote(v) => v.round,
                ConsensusMessage::Timeout(x) => x.round,
                ConsensusMessage::Propose(b) if w.index_of(&b.author) == Some(*writer as usize - 1) => b.round,
                _ => continue,
            };
            let e = round_at_gst.entry(*writer).or_insert(0);
            *e = (*e).max(r);
        }
    }
    let distinct_rounds: BTreeSet<u64> = round_at_gst.values().copied().collect();
    let hist = |extra: Value| {
        let tail: Vec<Value> = frames
            .iter()
            .rev()
            .filter(|f| !matches!(f.4, ConsensusMessage::Vote(_)))
            .take(60)
            .map(|(_, tt, wr, dst, m, dr)| json!({"t_us": tt, "from": wr, "to": dst, "msg": crate::solo::render_msg(m), "dropped": dr}))
            .collect();
        json!({"n": n, "f": f, "boot_ms": boot_ms, "first_leader_proposal_delayed": delay_first_leader, "crashes": plan, "gst_ms": gst_ms, "pre_gst_extra_ms": pre_extra_ms, "window_ms": window_ms, "measured_from_us": t1, "detail": extra,
            "committed_round_per_live_node": live.iter().map(|i| json!({"node": i, "at_t1": max_until(*i, t1), "at_t2": max_until(*i, t2), "at_t3": max_until(*i, t3)})).collect::<Vec<_>>(),
            "last_non_vote_frames_newest_first": tail})
    };
    if std::env::var("VERIF_DEBUG_TIMELINE").is_ok() {
        // one line per distinct (writer, message) - first write only - for debugging a replay
        let mut seen: HashSet<(u32, String)> = HashSet::new();
        for (_, tt, wr, dst, m, dr) in &frames {
            if matches!(m, ConsensusMessage::Vote(_)) {
                continue;
            }
            let text = crate::solo::render_msg(m);
            if seen.insert((*wr, text.clone())) {
                eprintln!("TL {} {}->{}{} {}", tt, wr, dst, if *dr { " DROPPED" } else { "" }, text);
            }
        }
        for (node, v) in &commits {
            eprintln!("TL commits node {}: {:?}", node, v.iter().map(|(t, _, b)| (t / 1000, b.round)).collect::<Vec<_>>());
        }
    }
    // any two consecutive windows with progress for every live node, among the measured ones
    let end_us = log.last().map_or(0, |e| e.t_us);
    let mut progressed_at: Option<u64> = None;
    let mut j = 0;
    loop {
        let base = t1 + j * window_ms * 1000;
        if base + 2 * window_ms * 1000 > end_us + 1000 {
            break;
        }
        let ok = live.iter().all(|node| {
            let (a, b, c) = (max_until(*node, base), max_until(*node, base + window_ms * 1000), max_until(*node, base + 2 * window_ms * 1000));
            b > a && c > b
        });
        if ok {
            progressed_at = Some(j);
            break;
        }
        j += 1;
    }
    match progressed_at {
        Some(0) => {}
        Some(j) => out.class(&format!("progress-resumed-after-{}-extra-windows", j)),
        None => {
            for node in &live {
                let (a, b, c) = (max_until(*node, t1), max_until(*node, t2), max_until(*node, t3));
                if !(b > a && c > b) {
                    out.violate(
                        "no-commit-progress-after-stabilisation",
                        format!(
                            "live node {}: highest committed round {} at GST+settle, {} one window ({} ms) later, {} two windows later, {} at the end of the run ({} ms): no two consecutive windows with progress for every live node",
                            node, a, b, window_ms, c, max_until(*node, end_us), end_us / 1000
                        ),
                        hist(json!(null)),
                    );
                    break;
                }
            }
        }
    }
    // classification
    let crashed_ids: Vec<u32> = crashed.iter().map(|c| *c as u32 + 1).collect();
    let rounds_in_window: BTreeSet<u64> = commits.values().flat_map(|v| v.iter().filter(|(tt, _, _)| *tt >= t1).map(|(_, _, b)| b.round)).collect();
    let (lo, hi) = (rounds_in_window.iter().next().copied().unwrap_or(0), rounds_in_window.iter().last().copied().unwrap_or(0));
    let crashed_leader_in_window = (lo..=hi).any(|r| crashed_ids.contains(&(w.leader(r) as u32 + 1)));
    if crashed_leader_in_window && !crashed.is_empty() {
        out.class("crashed-leader-inside-window");
    }
    if distinct_rounds.len() >= 2 {
        out.class("nodes-in-different-rounds-at-gst");
    }
    let tc_committed = commits.values().any(|v| v.iter().any(|(tt, _, b)| *tt >= t1 && b.tc.is_some()));
    if tc_committed {
        out.class("tc-justified-block-committed");
    }
    if split_profile {
        out.class("split-tc-profile");
    }
    out.class(&format!("crashes={}", crashed.len()));
    out.class(&format!("n={}", n));
    out.nontrivial = crashed_leader_in_window && !crashed.is_empty() && distinct_rounds.len() >= 2;
    out
}
